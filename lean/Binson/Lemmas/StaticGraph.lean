/-
  C17, general part: facts about a call graph that carries a rank and a stack-bound certificate.
  Proved once for all graphs; the generated per-configuration data only needs `decide`.
-/
namespace Binson.Static

theorem getD_default {α} (l : List α) (i : Nat) (d : α) (h : l.length ≤ i) : l.getD i d = d := by
  simp [List.getD, List.getElem?_eq_none h]
theorem getD_getElem {α} (l : List α) (i : Nat) (d : α) (h : i < l.length) : l.getD i d = l[i] := by
  simp [List.getD, List.getElem?_eq_getElem h]

structure Cfg where
  name : String
  fns : List (String × Nat × Bool)     -- name, frame bytes, frame is static with no dynamic object
  nDefined : Nat                       -- the first nDefined entries are defined in the library, the rest are libc leaves
  edges : List (Nat × Nat)             -- caller, callee (indices into fns)
  rank : List Nat                      -- certificate: strictly decreasing along every edge
  bound : List Nat                     -- certificate: bound[u] >= frame[u] + bound[v] along every edge
  undefinedSyms : List String
  writableSyms : List String

def Cfg.frame (c : Cfg) (i : Nat) : Nat := (c.fns.getD i ("", 0, true)).2.1
def Cfg.rk (c : Cfg) (i : Nat) : Nat := c.rank.getD i 0
def Cfg.bd (c : Cfg) (i : Nat) : Nat := c.bound.getD i 0

def Cfg.edgesRanked (c : Cfg) : Bool := c.edges.all fun e => c.rk e.2 < c.rk e.1
def Cfg.boundsOk (c : Cfg) : Bool :=
  (c.edges.all fun e => c.frame e.1 + c.bd e.2 ≤ c.bd e.1) && ((List.range c.fns.length).all fun i => c.frame i ≤ c.bd i)
def Cfg.framesStatic (c : Cfg) : Bool := c.fns.all fun f => f.2.2
def allocators : List String :=
  ["malloc", "calloc", "realloc", "free", "alloca", "aligned_alloc", "posix_memalign", "strdup", "strndup", "mmap", "brk", "sbrk", "_Znwm", "_Znam"]
def Cfg.noAllocator (c : Cfg) : Bool := c.undefinedSyms.all fun s => !allocators.contains s
def Cfg.noWritable (c : Cfg) : Bool := c.writableSyms.isEmpty
def Cfg.maxBound (c : Cfg) : Nat := c.bound.foldl max 0

def Cfg.ok (c : Cfg) : Bool :=
  c.edgesRanked && c.boundsOk && c.framesStatic && c.noAllocator && c.noWritable &&
    decide (c.rank.length = c.fns.length) && decide (c.bound.length = c.fns.length)

/-- a call chain: consecutive entries are caller/callee edges -/
def Cfg.isChain (c : Cfg) : List Nat → Prop
  | [] => True
  | [_] => True
  | a :: b :: r => (a, b) ∈ c.edges ∧ c.isChain (b :: r)

def Cfg.stackOf (c : Cfg) (p : List Nat) : Nat := (p.map c.frame).sum

theorem edge_rank (c : Cfg) (h : c.edgesRanked = true) {a b : Nat} (he : (a, b) ∈ c.edges) : c.rk b < c.rk a := by
  have := List.all_eq_true.mp h (a, b) he
  simpa using this

theorem chain_rank_lt (c : Cfg) (h : c.edgesRanked = true) :
    ∀ (p : List Nat) (a : Nat), c.isChain (a :: p) → ∀ x ∈ p, c.rk x < c.rk a
  | [], _, _, x, hx => by cases hx
  | b :: r, a, hc, x, hx => by
    have hab := edge_rank c h hc.1
    rcases List.mem_cons.mp hx with rfl | hx'
    · exact hab
    · exact Nat.lt_trans (chain_rank_lt c h r b hc.2 x hx') hab

/-- no function occurs twice on a call chain: there is no recursion, direct or mutual -/
theorem chain_nodup (c : Cfg) (h : c.edgesRanked = true) : ∀ p : List Nat, c.isChain p → p.Nodup
  | [], _ => List.nodup_nil
  | a :: p, hc => by
    refine List.nodup_cons.mpr ⟨?_, ?_⟩
    · intro hm
      exact Nat.lt_irrefl _ (chain_rank_lt c h p a hc a hm)
    · cases p with
      | nil => exact List.nodup_nil
      | cons b r => exact chain_nodup c h (b :: r) hc.2

/-- the depth of any call chain is bounded by the rank of its first function -/
theorem chain_length (c : Cfg) (h : c.edgesRanked = true) : ∀ (p : List Nat) (a : Nat), c.isChain (a :: p) → p.length ≤ c.rk a
  | [], _, _ => Nat.zero_le _
  | b :: r, a, hc => by
    have := chain_length c h r b hc.2
    have := edge_rank c h hc.1
    simp only [List.length_cons]; omega

theorem frame_le_bd (c : Cfg) (h : c.boundsOk = true) (i : Nat) : c.frame i ≤ c.bd i := by
  by_cases hi : i < c.fns.length
  · have h2 := (Bool.and_eq_true _ _ |>.mp h).2
    have := List.all_eq_true.mp h2 i (List.mem_range.mpr hi)
    simpa using this
  · have : c.frame i = 0 := by
      unfold Cfg.frame
      rw [getD_default _ _ _ (Nat.le_of_not_lt hi)]
    omega

/-- the stack used by any call chain is bounded by the certificate of its first function -/
theorem chain_stack (c : Cfg) (h : c.boundsOk = true) : ∀ (p : List Nat) (a : Nat), c.isChain (a :: p) → c.stackOf (a :: p) ≤ c.bd a
  | [], a, _ => by simpa [Cfg.stackOf] using frame_le_bd c h a
  | b :: r, a, hc => by
    have ih := chain_stack c h r b hc.2
    have h1 := (Bool.and_eq_true _ _ |>.mp h).1
    have he := List.all_eq_true.mp h1 (a, b) hc.1
    have he' : c.frame a + c.bd b ≤ c.bd a := by simpa using he
    simp only [Cfg.stackOf, List.map_cons, List.sum_cons] at ih ⊢
    omega

theorem foldl_max_ge (l : List Nat) : ∀ (m : Nat), m ≤ l.foldl max m ∧ ∀ x ∈ l, x ≤ l.foldl max m := by
  induction l with
  | nil => intro m; exact ⟨Nat.le_refl _, fun x hx => by cases hx⟩
  | cons y r ih =>
    intro m
    have := ih (max m y)
    refine ⟨Nat.le_trans (Nat.le_max_left m y) this.1, ?_⟩
    intro x hx
    rcases List.mem_cons.mp hx with rfl | hx'
    · exact Nat.le_trans (Nat.le_max_right m x) this.1
    · exact this.2 x hx'

theorem bd_le_maxBound (c : Cfg) (i : Nat) : c.bd i ≤ c.maxBound := by
  unfold Cfg.bd Cfg.maxBound
  by_cases hi : i < c.bound.length
  · have : c.bound.getD i 0 ∈ c.bound := by
      rw [getD_getElem _ _ _ hi]; exact List.getElem_mem hi
    exact (foldl_max_ge c.bound 0).2 _ this
  · rw [getD_default _ _ _ (Nat.le_of_not_lt hi)]; exact Nat.zero_le _

end Binson.Static
