/-
  Layer 3, part 3: the pass-through lemma. Below the originating level and in a continuing
  mode, the loop consumes exactly one encoded value (resp. element list, field list), leaves
  the lower levels untouched, restores the upper levels to zero, and logs exactly the callbacks
  `viewsOf` prescribes. Mutual structural induction over Value / Elems / Fields.
-/
import Binson.Lemmas.PassTok
import Binson.Lemmas.Tokens
namespace Binson

theorem advLoop_cont {f : Nat} {st st' : LoopSt} {sn : Option (List UInt8)} {oa od : Nat}
    (h : iter st sn oa od = (st', .cont)) : advLoop (f + 1) st sn oa od = advLoop f st' sn oa od := by
  rw [advLoop, h]

/-- the bytes a span denotes, as the print callbacks read them -/
theorem extract_eq_slice (p : Parser) (s : Span) : (p.buf.extract s.off (s.off + s.len)).toList = p.slice s := rfl

/-- result of passing a value sitting in level `lvlIdx` -/
structure PassedV (st st' : LoopSt) (v : Value) : Prop where
  base : Passed st st' (encode v).length (viewsOf (st.p.getLvl st.p.lvlIdx).ad v)
  ad : (st'.p.getLvl st.p.lvlIdx).ad = (st.p.getLvl st.p.lvlIdx).ad
  name : (st'.p.getLvl st.p.lvlIdx).name = (st.p.getLvl st.p.lvlIdx).name
  flags : (st'.p.getLvl st.p.lvlIdx).flags = afterFlags (st.p.getLvl st.p.lvlIdx) v.isArr

theorem Deep.after {st st' : LoopSt} {oa od : Nat} {len : Nat} {vs : List EvView} (hD : Deep st oa od)
    (hp : Passed st st' len vs) (had : (st'.p.getLvl st.p.lvlIdx).ad = (st.p.getLvl st.p.lvlIdx).ad) : Deep st' oa od := by
  have hi : st'.p.lvlIdx = st.p.lvlIdx := by unfold Parser.lvlIdx; rw [hp.depth]
  refine ⟨hp.moved.shape, hp.moved.err, by rw [hp.moved.scan]; exact hD.cont, by rw [hp.depth]; exact hD.d1, ?_, ?_, ?_,
    by rw [hp.moved.frame.2.2.1]; exact hD.md255⟩
  · rw [hp.depth, hi, had]; exact hD.deeper
  · intro i h; rw [hp.depth] at h; exact hp.zeros i h
  · rw [hp.moved.frame.2.2.2.1, hp.depth, hi, had]; exact hD.rootArr

theorem rem_of_frame {p q : Parser} (hb : q.buf = p.buf) (hu : q.used = p.used + n) {bs rest : Bytes} (hs : Shape p)
    (h : p.rem = bs ++ rest) (hn : bs.length = n) : q.rem = rest := by
  unfold Parser.rem at *
  rw [hb, hu]
  have := drop_append_len (p := p) (off := p.used) (by rw [hs.hbs]; exact hs.hus) h
  rw [← hn]; exact this.2

end Binson

namespace Binson

theorem scalarStore_fields (tok : Tok) (lv : Level) (span : Span) (q : Parser) :
    (scalarStore tok lv span q).name = lv.name ∧ (scalarStore tok lv span q).flags = lv.flags ∧
    (scalarStore tok lv span q).ad = lv.ad := by
  cases tok <;> exact ⟨rfl, rfl, rfl⟩

theorem scalarStore_spans {n : Nat} (tok : Tok) (lv : Level) (span : Span) (q : Parser)
    (hl : lv.SpansOk n) (hs : span.off + span.len ≤ n) : (scalarStore tok lv span q).SpansOk n := by
  cases tok <;> first
    | exact hl
    | exact ⟨fun s h => hl.1 s h, fun s h => by simp [scalarStore] at h; subst h; exact hs⟩
    | exact ⟨fun s h => hl.1 s h, fun s h => by simp [scalarStore] at h⟩

/-- from the closed form of a scalar iteration to the pass relation -/
theorem scalar_passed {st : LoopSt} {sn : Option (List UInt8)} {oa od : Nat} (hD : Deep st oa od)
    (tok : Tok) (span : Span) (bc : Nat) (q : Parser) (hq : q = { st.p with used := st.p.used + bc })
    (hcl : classify st.p st.bc = ⟨tok, span, bc, q⟩)
    (hfit : st.p.used + bc ≤ st.p.size) (hsp : span.off + span.len ≤ st.p.size)
    (hctx : ValCtx (st.p.getLvl st.p.lvlIdx)) (hsc : tok.isScalar = true)
    (hint : tok = .integer → intBoundsOk (parseIntVal st.p span) span.len = true)
    (v : Value) (hlen : (encode v).length = bc) (hv : v.isArr = false)
    (hview : [view st.p.buf (tok, scalarStore tok { st.p.getLvl st.p.lvlIdx with flags := afterFlags (st.p.getLvl st.p.lvlIdx) false } span st.p)]
      = viewsOf (st.p.getLvl st.p.lvlIdx).ad v) :
    ∃ st', iter st sn oa od = (st', .cont) ∧ st'.p.used = st.p.used + bc ∧ st'.p.buf = st.p.buf ∧ PassedV st st' v := by
  have hit := iter_scalar (sn := sn) hD tok span bc q hq hcl hfit hsp hctx hsc hint
  have hsh := hD.shape
  have hli := hsh.lvlIdx_lt
  have hidx : st.p.lvlIdx = st.p.depth - 1 := Parser.lvlIdx_of_pos hD.d1
  have hqs : Shape q := by rw [hq]; exact hsh.withUsed _ hfit
  have hql : q.levels.size = st.p.levels.size := by rw [hq]
  have hli' : st.p.lvlIdx < q.levels.size := by rw [hql]; exact hli
  have hspl := hsh.hsp hD.err st.p.lvlIdx
  generalize hnl : scalarStore tok { st.p.getLvl st.p.lvlIdx with flags := afterFlags (st.p.getLvl st.p.lvlIdx) false } span st.p = nl at hit hview
  obtain ⟨n1, n2, n3⟩ := scalarStore_fields tok { st.p.getLvl st.p.lvlIdx with flags := afterFlags (st.p.getLvl st.p.lvlIdx) false } span st.p
  rw [hnl] at n1 n2 n3
  have hnls : nl.SpansOk q.size := by
    rw [← hnl, show q.size = st.p.size by rw [hq]]
    exact scalarStore_spans _ _ _ _ (SpansOk_of_fields rfl rfl hspl) hsp
  obtain ⟨t1, t2, _, t4, t5, t6, t7, t8, t9, t10, t11⟩ :=
    setLvl_ok (p0 := st.p) hqs (by rw [hq]; exact ⟨rfl, rfl, rfl, rfl, rfl⟩) nl hli' hnls
  have hg : ∀ i, (q.setLvl st.p.lvlIdx nl).getLvl i = if i = st.p.lvlIdx then nl else st.p.getLvl i := by
    intro i; rw [getLvl_setLvl _ hli' i]; split
    · rfl
    · rw [hq]; rfl
  refine ⟨_, hit, ?_, ?_, ⟨⟨⟨t1, ?_, ?_, rfl, t2, ?_, ?_⟩, ?_, ?_⟩, ?_, ?_, ?_⟩⟩
  · show (q.setLvl st.p.lvlIdx nl).used = _; rw [t4, hq]
  · show (q.setLvl st.p.lvlIdx nl).buf = _; exact t2.2.1
  · show (q.setLvl st.p.lvlIdx nl).err = _; rw [t6, hq]; exact hD.err
  · show (q.setLvl st.p.lvlIdx nl).used = _; rw [t4, hq, hlen]
  · intro i hi; show (q.setLvl st.p.lvlIdx nl).getLvl i = _; rw [hg]; simp [Nat.ne_of_lt hi]
  · exact ⟨[(tok, nl)], rfl, by simpa using hview⟩
  · show (q.setLvl st.p.lvlIdx nl).depth = _; rw [t5, hq]
  · intro i hi; show (q.setLvl st.p.lvlIdx nl).getLvl i = _; rw [hg]
    have hd1 := hD.d1
    have : i ≠ st.p.lvlIdx := by omega
    simp only [this, if_false]; exact hD.zeros i hi
  · show ((q.setLvl st.p.lvlIdx nl).getLvl st.p.lvlIdx).ad = _; rw [hg]; simp [n3]
  · show ((q.setLvl st.p.lvlIdx nl).getLvl st.p.lvlIdx).name = _; rw [hg]; simp [n1]
  · show ((q.setLvl st.p.lvlIdx nl).getLvl st.p.lvlIdx).flags = _; rw [hg, hv]; simp [n2]

end Binson

namespace Binson

def Value.isContainer : Value → Bool
  | .arr _ | .obj _ => true
  | _ => false

theorem encInt_length (base : UInt8) (i : Int) : (encInt base i).length = 1 + intWidth i := by
  simp [encInt, Nat.add_comm]

theorem encStr_length (base : UInt8) (s : Bytes) : (encStr base s).length = 1 + intWidth (s.length : Int) + s.length := by
  simp [encStr, encInt_length]

theorem rem_fit {p : Parser} (hs : Shape p) {bs rest : Bytes} (h : p.rem = bs ++ rest) : p.used + bs.length ≤ p.size := by
  have := drop_append_len (p := p) (off := p.used) (by rw [hs.hbs]; exact hs.hus) h
  rw [← hs.hbs]; exact this.1

/-- a scalar value below the originating level is consumed in one iteration -/
theorem pass_scalar (v : Value) (hsv : v.isContainer = false) {st : LoopSt} {sn : Option (List UInt8)} {oa od : Nat}
    (hD : Deep st oa od) (rest : Bytes) (hrem : st.p.rem = encode v ++ rest) (hwf : wfValue v = true)
    (hctx : ValCtx (st.p.getLvl st.p.lvlIdx)) :
    ∃ st', iter st sn oa od = (st', .cont) ∧ st'.p.rem = rest ∧ PassedV st st' v := by
  have hsh := hD.shape
  have hfit := rem_fit hsh hrem
  have finish : ∀ (bc : Nat) (st' : LoopSt), (encode v).length = bc → st'.p.used = st.p.used + bc → st'.p.buf = st.p.buf →
      st'.p.rem = rest := fun bc st' hl hu hb => rem_of_frame hb hu hsh hrem hl
  cases v with
  | arr xs => cases hsv
  | obj fs => cases hsv
  | bool b =>
    have hrem' : st.p.rem = (if b then 0x44 else 0x45) :: rest := by simpa [encode] using hrem
    obtain ⟨c1, c2, _⟩ := classify_bool hsh hD.err st.bc rest b hrem'
    have hl : (encode (.bool b)).length = 1 := by simp [encode]
    obtain ⟨st', h1, h2, h3, h4⟩ := scalar_passed (sn := sn) hD .boolean ⟨st.p.used, 1⟩ 1 _ rfl c1 (by rw [hl] at hfit; exact hfit)
      (by rw [hl] at hfit; exact hfit) hctx rfl (fun h => by cases h) (.bool b) hl rfl (by
        simp only [scalarStore, view, viewsOf]
        rw [c2 st.p rfl])
    exact ⟨st', h1, finish 1 st' hl h2 h3, h4⟩
  | int i =>
    have hi : int64Min ≤ i ∧ i ≤ int64Max := by simpa [wfValue] using hwf
    have hrem' : st.p.rem = encInt 0x10 i ++ rest := by simpa [encode] using hrem
    obtain ⟨c1, c2, c3, _⟩ := classify_int hsh hD.err st.bc rest i hi hrem'
    have hl : (encode (.int i)).length = 1 + intWidth i := by simp [encode, encInt_length]
    rw [hl] at hfit
    obtain ⟨st', h1, h2, h3, h4⟩ := scalar_passed (sn := sn) hD .integer ⟨st.p.used + 1, intWidth i⟩ (1 + intWidth i) _ (by simp only [Nat.add_assoc]) c1
      (by omega) (by simp only; omega) hctx rfl (fun _ => by rw [c2 st.p rfl]; exact c3) (.int i) hl rfl (by
        simp only [scalarStore, view, viewsOf]
        rw [c2 st.p rfl])
    exact ⟨st', h1, finish _ st' hl h2 h3, h4⟩
  | dbl bits =>
    have hrem' : st.p.rem = 0x46 :: (leBytes 8 bits.toNat ++ rest) := by simpa [encode] using hrem
    obtain ⟨c1, c2, _⟩ := classify_dbl hsh hD.err st.bc rest bits hrem'
    have hl : (encode (.dbl bits)).length = 9 := by simp [encode]
    rw [hl] at hfit
    obtain ⟨st', h1, h2, h3, h4⟩ := scalar_passed (sn := sn) hD .double ⟨st.p.used + 1, 8⟩ 9 _ rfl c1
      hfit (by simp only; omega) hctx rfl (fun h => by cases h) (.dbl bits) hl rfl (by
        simp only [scalarStore, view, viewsOf]
        rw [c2 st.p rfl])
    exact ⟨st', h1, finish _ st' hl h2 h3, h4⟩
  | str s =>
    have hs : s.length ≤ INT32_MAX := by simpa [wfValue] using hwf
    have hrem' : st.p.rem = encStr 0x14 s ++ rest := by simpa [encode] using hrem
    obtain ⟨c1, c2, _⟩ := classify_str hsh hD.err st.bc rest s hs hrem'
    have hl : (encode (.str s)).length = 1 + intWidth (s.length : Int) + s.length := by simp [encode, encStr_length]
    rw [hl] at hfit
    obtain ⟨st', h1, h2, h3, h4⟩ := scalar_passed (sn := sn) hD .string ⟨st.p.used + 1 + intWidth (s.length : Int), s.length⟩ _ _ (by simp only [Nat.add_assoc]) c1
      hfit (by simp only; omega) hctx rfl (fun h => by cases h) (.str s) hl rfl (by
        simp only [scalarStore, view, viewsOf, evSpan]
        have := c2 st.p rfl
        unfold Parser.slice at this
        simp only at this
        rw [this])
    exact ⟨st', h1, finish _ st' hl h2 h3, h4⟩
  | bytes s =>
    have hs : s.length ≤ INT32_MAX := by simpa [wfValue] using hwf
    have hrem' : st.p.rem = encStr 0x18 s ++ rest := by simpa [encode] using hrem
    obtain ⟨c1, c2, _⟩ := classify_bytes hsh hD.err st.bc rest s hs hrem'
    have hl : (encode (.bytes s)).length = 1 + intWidth (s.length : Int) + s.length := by simp [encode, encStr_length]
    rw [hl] at hfit
    obtain ⟨st', h1, h2, h3, h4⟩ := scalar_passed (sn := sn) hD .bytes ⟨st.p.used + 1 + intWidth (s.length : Int), s.length⟩ _ _ (by simp only [Nat.add_assoc]) c1
      hfit (by simp only; omega) hctx rfl (fun h => by cases h) (.bytes s) hl rfl (by
        simp only [scalarStore, view, viewsOf, evSpan]
        have := c2 st.p rfl
        unfold Parser.slice at this
        simp only at this
        rw [this])
    exact ⟨st', h1, finish _ st' hl h2 h3, h4⟩

end Binson
