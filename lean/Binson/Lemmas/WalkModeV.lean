/-
  Traversal on ARBITRARY bytes, part 4: `binson_parser_next` (scan mode VALUE) - if no error is
  pending afterwards the depth is unchanged, and when it returns true with an object as the
  current type, a `{` is at the cursor.
-/
import Binson.Lemmas.WalkRaw
namespace Binson

/-- the current entry says "object" only with a `{` at the cursor -/
def walkPend (q : Parser) : Prop := (q.getLvl q.cur).ctype = .object → ∃ rs, q.rem = 0x40 :: rs

def walkVC (od : Nat) (q : Parser) (s : Option Scan) : Prop := od ≤ q.depth ∧ (s = some .value ∨ (s = none ∧ q.depth = od))
def walkVS (od : Nat) (q : Parser) : Prop := q.err = .none ∧ q.depth = od ∧ walkPend q
def walkVR (od : Nat) (q : Parser) : Prop := q.err ≠ .none ∨ q.depth = od

theorem walk_pend_set (P : Parser) (li : Nat) (LV : Level) (hli : li < P.levels.size) (hcur : P.cur = li)
    (h : LV.ctype ≠ .object) : walkPend (P.setLvl li LV) := by
  intro hc
  rw [walk_setLvl_cur, hcur, getLvl_setLvl _ hli, if_pos rfl] at hc
  exact absurd hc h

theorem walk_pend_rem (P : Parser) (li : Nat) (LV : Level) (rs : Bytes) (h : P.rem = 0x40 :: rs) : walkPend (P.setLvl li LV) :=
  fun _ => ⟨rs, by rw [rem_setLvl]; exact h⟩

theorem walk_touchBuf_cur (p : Parser) (o n : Nat) : (p.touchBuf o n).cur = p.cur := by
  unfold Parser.touchBuf; split <;> rfl
theorem walk_touchBuf_lsize (p : Parser) (o n : Nat) : (p.touchBuf o n).levels.size = p.levels.size := by
  unfold Parser.touchBuf; split <;> rfl

theorem walk_v_dispatch (st : LoopSt) (q : Parser) (lv : Level) (li : Nat) (s : Option Scan) (tok : Tok) (span : Span) (bc oa od : Nat)
    (_he : q.err = .none) (hpt : q.ptype = 1) (hd : od ≤ q.depth) (hs : s = some .value ∨ (s = none ∧ q.depth = od))
    (hli : li < q.levels.size) (hcur : q.cur = li)
    (hO : tok = .objBegin → ∃ rs, q.rem = 0x40 :: rs) (hA : tok = .arrBegin → lv.ctype = .array) :
    WalkPost (walkDispatch st q lv li s tok span bc none oa od) (walkVC od) (walkVS od) (walkVR od) := by
  have errF : ∀ (p : Parser) (lv : Level) (li : Nat) (tok : Tok) (s : Option Scan) (f : Bool), p.err ≠ .none →
      WalkPost (finish st tok p lv li s f) (walkVC od) (walkVS od) (walkVR od) := by
    intro p lv li tok s f hp
    exact walk_post_finish _ _ _ _ _ _ _ (fun _ => Or.inl (by rw [setLvl_err]; exact hp)) (fun h => absurd h hp) (fun h => absurd h hp)
  have contV : ∀ (p : Parser) (lv : Level) (li : Nat) (tok : Tok) (f : Bool), od ≤ p.depth →
      WalkPost (finish st tok p lv li (some .value) f) (walkVC od) (walkVS od) (walkVR od) := by
    intro p lv li tok f hp
    refine walk_post_finish _ _ _ _ _ _ _ (fun h => Or.inl (by rw [setLvl_err]; exact h))
      (fun _ _ => ⟨by rw [setLvl_depth]; exact hp, Or.inl rfl⟩) (fun _ h => ?_)
    unfold walkProceed at h
    rw [show has (some Scan.value) [.verify, .leaveObj, .value, .leaveArr] = true from rfl] at h
    simp at h
  have stopN : ∀ (p : Parser) (lv : Level) (li : Nat) (tok : Tok), p.depth = od → walkPend (p.setLvl li lv) →
      WalkPost (finish st tok p lv li none false) (walkVC od) (walkVS od) (walkVR od) := by
    intro p lv li tok hp hpe
    refine walk_post_finish _ _ _ _ _ _ _ (fun h => Or.inl (by rw [setLvl_err]; exact h)) (fun _ h => ?_)
      (fun h _ => ⟨by rw [setLvl_err]; exact h, by rw [setLvl_depth]; exact hp, hpe⟩)
    simp [walkProceed, has] at h
  have contN : ∀ (p : Parser) (lv : Level) (li : Nat) (tok : Tok), p.depth = od →
      WalkPost (finish st tok p lv li none true) (walkVC od) (walkVS od) (walkVR od) := by
    intro p lv li tok hp
    refine walk_post_finish _ _ _ _ _ _ _ (fun h => Or.inl (by rw [setLvl_err]; exact h))
      (fun _ _ => ⟨by rw [setLvl_depth, hp]; exact Nat.le_refl _, Or.inr ⟨rfl, by rw [setLvl_depth]; exact hp⟩⟩) (fun _ h => ?_)
    simp [walkProceed] at h
  unfold walkDispatch
  cases tok with
  | objBegin =>
    simp only
    obtain ⟨rs, hrem⟩ := hO rfl
    unfold caseObjBegin
    rcases hs with rfl | ⟨rfl, hdo⟩
    · simp only [show has (some Scan.value) [.verify, .enterObj, .value, .leaveArr, .leaveObj] = true from rfl, if_true,
        show clear (some Scan.value) .enterObj = some .value from rfl]
      split
      · refine contV _ _ _ _ _ ?_
        rw [walk_touchLvl_depth]
        show od ≤ (q.setLvl li lv).depth + 1
        rw [setLvl_depth]; omega
      · exact errF _ _ _ _ _ _ (by simp)
    · rw [if_neg (by rw [show has none [Scan.verify, .enterObj, .value, .leaveArr, .leaveObj] = false from rfl]; simp)]
      exact stopN _ _ _ _ hdo (walk_pend_rem _ _ _ rs hrem)
  | objEnd =>
    simp only
    unfold caseObjEnd
    split
    · exact errF _ _ _ _ _ _ (by simp)
    · rcases hs with rfl | ⟨rfl, hdo⟩
      · simp only [show has (some Scan.value) [.verify, .leaveObj, .value, .leaveArr] = true from rfl, if_true,
          show clear (some Scan.value) .leaveObj = some .value from rfl, ite_self,
          show has (some Scan.value) [.value] = true from rfl, and_true]
        split
        · rename_i hod
          apply walk_post_ret
          right; show (q.setLvl li lv).depth = od; rw [setLvl_depth, hod]
        · rename_i hod
          have hdq : ((({ q.setLvl li lv with used := (q.setLvl li lv).used + 1 } : Parser).touchLvl
              ({ q.setLvl li lv with used := (q.setLvl li lv).used + 1 } : Parser).cur).setLvl
              ({ q.setLvl li lv with used := (q.setLvl li lv).used + 1 } : Parser).cur Level.zero).depth = q.depth := by
            rw [setLvl_depth, walk_touchLvl_depth]; show (q.setLvl li lv).depth = _; rw [setLvl_depth]
          split
          · refine contV _ _ _ _ _ ?_
            show od ≤ (((({ q.setLvl li lv with used := (q.setLvl li lv).used + 1 } : Parser).touchLvl _).setLvl _ Level.zero).depth - 1)
            rw [hdq]; omega
          · split
            · rename_i _ hd1
              rw [hdq] at hd1
              apply walk_post_ret
              simp only
              split
              · left; simp
              · right; show 0 = od; omega
            · apply walk_post_ret
              left; simp
      · rw [if_neg (by rw [show has none [Scan.verify, .leaveObj, .value, .leaveArr] = false from rfl]; simp)]
        apply walk_post_ret
        right; show (q.setLvl li lv).depth = od; rw [setLvl_depth, hdo]
  | fieldName =>
    simp only
    unfold caseFieldName
    simp only
    have hdp : (touchName (q.touchBuf span.off span.len) lv.name).depth = q.depth := by
      rw [walk_touchName_depth, walk_touchBuf_depth]
    split
    · exact errF _ _ _ _ _ _ (by simp)
    · split
      · rename_i _ horig
        rw [show overshoot (touchName (q.touchBuf span.off span.len) lv.name) span none = false from rfl]
        simp only [Bool.false_eq_true, if_false]
        have hcl : clear s .value = none := by
          rcases hs with rfl | ⟨rfl, _⟩ <;> rfl
        rw [hcl]
        exact contN _ _ _ _ horig.2.symm
      · rcases hs with rfl | ⟨rfl, hdo⟩
        · exact contV _ _ _ _ _ (by rw [hdp]; exact hd)
        · exact contN _ _ _ _ (by rw [hdp]; exact hdo)
  | arrBegin =>
    simp only
    unfold caseArrBegin
    split
    · exact errF _ _ _ _ _ _ (by simp)
    · rcases hs with rfl | ⟨rfl, hdo⟩
      · simp only [show has (some Scan.value) [.verify, .value, .enterArr, .leaveArr, .leaveObj] = true from rfl, if_true,
          show clear (some Scan.value) .enterArr = some .value from rfl]
        exact contV _ _ _ _ _ hd
      · rw [if_neg (by rw [show has none [Scan.verify, .value, .enterArr, .leaveArr, .leaveObj] = false from rfl]; simp)]
        refine stopN _ _ _ _ hdo (walk_pend_set _ _ _ hli hcur ?_)
        have := hA rfl
        split <;> (show lv.ctype ≠ .object; rw [this]; decide)
  | arrEnd =>
    simp only
    unfold caseArrEnd
    split
    · exact errF _ _ _ _ _ _ (by simp)
    · rcases hs with rfl | ⟨rfl, hdo⟩
      · simp only [show has (some Scan.value) [.verify, .value, .leaveArr, .leaveObj] = true from rfl, if_true,
          show clear (some Scan.value) .leaveArr = some .value from rfl, ite_self]
        split
        · exact errF _ _ _ _ _ _ (by simp)
        · split
          · rw [if_neg (by rw [hpt]; simp)]
            exact contV _ _ _ _ _ hd
          · exact contV _ _ _ _ _ hd
      · rw [if_neg (by rw [show has none [Scan.verify, .value, .leaveArr, .leaveObj] = false from rfl]; simp)]
        apply walk_post_ret
        right; show (q.setLvl li lv).depth = od; rw [setLvl_depth, hdo]
  | string | boolean | double | integer | bytes =>
    simp only
    unfold caseScalar
    simp only
    rcases hs with rfl | ⟨rfl, hdo⟩
    · first
        | exact contV _ _ _ _ _ hd
        | (split
           · exact errF _ _ _ _ _ _ (by simp)
           · exact contV _ _ _ _ _ (by rw [walk_touchBuf_depth]; exact hd))
        | exact contV _ _ _ _ _ (by rw [walk_touchBuf_depth]; exact hd)
    · first
        | exact stopN _ _ _ _ hdo (walk_pend_set _ _ _ hli hcur (by simp))
        | (split
           · exact errF _ _ _ _ _ _ (by simp)
           · exact stopN _ _ _ _ (by rw [walk_touchBuf_depth]; exact hdo)
               (walk_pend_set _ _ _ (by rw [walk_touchBuf_lsize]; exact hli) (by rw [walk_touchBuf_cur]; exact hcur) (by simp)))
        | exact stopN _ _ _ _ (by rw [walk_touchBuf_depth]; exact hdo)
               (walk_pend_set _ _ _ (by rw [walk_touchBuf_lsize]; exact hli) (by rw [walk_touchBuf_cur]; exact hcur) (by simp))
  | error =>
    simp only
    unfold caseScalar
    apply walk_post_ret
    left; simp

end Binson

namespace Binson

theorem walk_v_iter (st : LoopSt) (oa od : Nat) (hs : Shape st.p) (he : st.p.err = .none) (hpt : st.p.ptype = 1)
    (hJ : walkVC od st.p st.scan) :
    WalkPost (iter st none oa od) (walkVC od) (walkVS od) (walkVR od) := by
  refine walk_iter_post hs he (fun q hq => Or.inl hq) (fun c lv tok hC hob => ?_)
  obtain ⟨_, _, _, o4, o5⟩ := objBlock_spec hob
  obtain ⟨_, _, _, a4⟩ := arrBlock_spec lv tok (decide (oa = lv.ad ∧ od = c.p.depth)) st.scan
  have hsc : (arrBlock lv tok (decide (oa = lv.ad ∧ od = c.p.depth)) st.scan).2 = some .value ∨
      ((arrBlock lv tok (decide (oa = lv.ad ∧ od = c.p.depth)) st.scan).2 = none ∧ c.p.depth = od) := by
    rcases walk_arrBlock_scan lv tok (decide (oa = lv.ad ∧ od = c.p.depth)) st.scan with e | ⟨e, _, hb⟩
    · rw [e, hC.depth]; exact hJ.2
    · right
      have hb' : oa = lv.ad ∧ od = c.p.depth := by simpa using hb
      refine ⟨?_, hb'.2.symm⟩
      rw [e]
      rcases hJ.2 with h | ⟨h, _⟩ <;> rw [h] <;> rfl
  refine walk_v_dispatch _ _ _ _ _ _ _ _ _ _ hC.err (hC.ptype.trans hpt) (by rw [hC.depth]; exact hJ.1) hsc
    hC.shape.lvlIdx_lt hC.shape.hcur ?_ ?_
  · intro ht
    have hct : c.tok = .objBegin := by
      rcases o5 with h | ⟨_, h⟩
      · rw [← h, ht]
      · rw [ht] at h; cases h
    obtain ⟨rs, hr⟩ := hC.objB hct
    exact ⟨rs, by rw [rem_same hC.buf (hC.beUsed (by rw [hct]; rfl))]; exact hr⟩
  · intro ht
    have hct : c.tok = .arrBegin := by
      rcases o5 with h | ⟨_, h⟩
      · rw [← h, ht]
      · rw [ht] at h; cases h
    rw [a4, o4, hC.lvlIdx]
    exact hC.ctyA hct

/-- **`next`** on a shaped object-rooted parser: if no error is pending afterwards the depth is
    unchanged; if it returns true, no error is pending and "current type = object" means a `{` is
    at the cursor -/
theorem walk_next_post (p : Parser) (hs : Shape p) (he : p.err = .none) (hpt : p.ptype = 1) :
    ((next p).1.err = .none → (next p).1.depth = p.depth) ∧
    ((next p).2 = true → (next p).1.err = .none ∧ walkPend (next p).1) := by
  unfold next
  simp only
  rcases walk_mode_adv p hs he .value none (walkVC p.depth) (walkVS p.depth) (walkVR p.depth) ⟨Nat.le_refl _, Or.inl rfl⟩
      (fun st i1 i2 i3 i4 => walk_v_iter st _ _ i1 i2 (i3.trans hpt) i4) with ⟨a1, a2, a3⟩ | ⟨hc, hR⟩
  · exact ⟨fun _ => a2, fun _ => ⟨a1, a3⟩⟩
  · refine ⟨fun h => ?_, fun h => by rw [hc] at h; cases h⟩
    rcases hR with hR | hR
    · exact absurd h hR
    · exact hR

end Binson
