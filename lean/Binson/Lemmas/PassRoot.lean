/-
  Layer 3, part 5: the four root tokens in VERIFY mode (the only tokens processed at the
  originating level), and verify on the encoding of a well-formed document.
-/
import Binson.Lemmas.PassInd
namespace Binson

/-- the state `advance … .verify` starts the loop in -/
def vstart (p : Parser) : LoopSt := ⟨p, some .verify, 0, []⟩

theorem cont_verify : Cont (some Scan.verify) := Or.inl rfl

/-- root `{` of an object document: depth 0 → 1, level 0 expects a field -/
theorem iter_root_objBegin {st : LoopSt} {sn : Option (List UInt8)} {oa od : Nat}
    (hsh : Shape st.p) (he : st.p.err = .none) (hsc : st.scan = some .verify) (hd : st.p.depth = 0)
    (hz : ∀ i, st.p.getLvl i = Level.zero) (hmd : st.p.maxDepth ≤ 255)
    (rest : Bytes) (hrem : st.p.rem = 0x40 :: rest) :
    ∃ st', iter st sn oa od = (st', .cont) ∧ Shape st'.p ∧ st'.p.err = .none ∧ st'.scan = st.scan ∧
      st'.p.used = st.p.used + 1 ∧ st'.p.depth = 1 ∧ st.p.Frame st'.p ∧
      (∀ i, st'.p.getLvl i = if i = 0 then { Level.zero with ctype := .object, flags := .expField } else Level.zero) ∧
      st'.ev = (.objBegin, { Level.zero with ctype := .object, flags := .expField }) :: st.ev := by
  have hli := hsh.lvlIdx_lt
  have hidx : st.p.lvlIdx = 0 := by unfold Parser.lvlIdx; rw [hd]; rfl
  have hcl := classify_objBegin hsh he st.bc rest hrem
  have hlt := (rem_cons hsh hrem).2.1
  rw [hidx, hz 0] at hcl
  have h0 : 0 < st.p.levels.size := by rw [← hidx]; exact hli
  obtain ⟨s1, s2, _, s4, s5, s6, s7, s8, s9, s10, s11⟩ :=
    setLvl_ok (p0 := st.p) hsh (Parser.Frame.refl _) { Level.zero with ctype := .object } h0 (SpansOk_of_fields rfl rfl (Level.zero_spansOk _))
  have hgq : ∀ i, (st.p.setLvl 0 { Level.zero with ctype := .object }).getLvl i =
      if i = 0 then { Level.zero with ctype := .object } else Level.zero := by
    intro i; rw [getLvl_setLvl _ h0 i]; split
    · rfl
    · exact hz i
  generalize st.p.setLvl 0 { Level.zero with ctype := .object } = q at hcl s1 s2 s4 s5 s6 s7 s8 s9 s10 s11 hgq
  have hqi : q.lvlIdx = 0 := by unfold Parser.lvlIdx; rw [s5, hd]; rfl
  have h0q : 0 < q.levels.size := by rw [s9]; exact h0
  unfold iter
  simp only [hcl, show Tok.objBegin ≠ Tok.error by decide, if_false]
  rw [hqi, hgq]
  simp only [if_true]
  have hob : objBlock { Level.zero with ctype := .object } .objBegin = some ({ Level.zero with ctype := .object }, .objBegin) := by
    unfold objBlock; simp [Level.zero, Flags.inObject]
  rw [hob]
  simp only [arrBlock_notArr _ _ _ (show ({ Level.zero with ctype := .object } : Level).flags.inArray = false from rfl)]
  show ∃ st', caseObjBegin _ _ _ _ _ = (st', .cont) ∧ _
  unfold caseObjBegin
  rw [hsc, if_pos cont_verify.has_objBegin, cont_verify.clear_enterObj]
  obtain ⟨t1, t2, _, t4, t5, t6, t7, t8, t9, t10, t11⟩ :=
    setLvl_ok (p0 := st.p) s1 s2 { Level.zero with ctype := .object } h0q (SpansOk_of_fields rfl rfl (Level.zero_spansOk _))
  have hgw : ∀ i, (q.setLvl 0 { Level.zero with ctype := .object }).getLvl i =
      if i = 0 then { Level.zero with ctype := .object } else Level.zero := by
    intro i; rw [getLvl_setLvl _ h0q i]; split
    · rfl
    · rw [hgq]; rename_i h; simp [h]
  generalize q.setLvl 0 { Level.zero with ctype := .object } = w at t1 t2 t4 t5 t6 t7 t8 t9 t10 t11 hgw
  dsimp only
  have hwd : w.depth = 0 := by rw [t5, s5, hd]
  have hcond : w.depth < 255 ∧ w.depth < w.maxDepth := by
    rw [hwd, t11, s11]; have := hsh.hmd; omega
  rw [if_pos hcond]
  have hn1 : Shape { w with used := w.used + 1, depth := w.depth + 1, cur := w.depth + 1 - 1 } := by
    refine t1.update ⟨rfl, rfl, rfl, rfl, rfl⟩ t1.hnf t1.hno (by have := t1.hmd; simp; omega) (by simp [Parser.lvlIdx]) (by simp; rw [t4, s4, t8, s8]; omega) ?_
    intro e i; exact t1.hsp e i
  have hcur : ({ w with used := w.used + 1, depth := w.depth + 1, cur := w.depth + 1 - 1 } : Parser).cur
      < ({ w with used := w.used + 1, depth := w.depth + 1, cur := w.depth + 1 - 1 } : Parser).levels.size := hn1.cur_lt
  rw [touchLvl_of_lt hcur]
  have hne : ({ w with used := w.used + 1, depth := w.depth + 1, cur := w.depth + 1 - 1 } : Parser).err = .none := by
    show w.err = .none; rw [t6, s6]; exact he
  have hcd : w.depth + 1 - 1 = 0 := by rw [hwd]
  have hlv : ({ w with used := w.used + 1, depth := w.depth + 1, cur := w.depth + 1 - 1 } : Parser).getLvl (w.depth + 1 - 1) =
      { Level.zero with ctype := .object } := by
    show w.getLvl (w.depth + 1 - 1) = _
    rw [hcd, hgw]; simp
  dsimp only
  rw [hlv]
  rw [finish_cont _ _ ({ w with used := w.used + 1, depth := w.depth + 1, cur := w.depth + 1 - 1 }) _ _ _ _ hcur hne (Or.inr cont_verify)]
  obtain ⟨u1, u2, _, u4, u5, u6, u7, u8, u9, u10, u11⟩ :=
    setLvl_ok (p0 := st.p) hn1 (t2.trans ⟨rfl, rfl, rfl, rfl, rfl⟩) { Level.zero with ctype := .object, flags := .expField } hcur
      (SpansOk_of_fields rfl rfl (Level.zero_spansOk _))
  have hgf : ∀ i, (({ w with used := w.used + 1, depth := w.depth + 1, cur := w.depth + 1 - 1 } : Parser).setLvl (w.depth + 1 - 1)
      { Level.zero with ctype := .object, flags := .expField }).getLvl i =
      if i = 0 then { Level.zero with ctype := .object, flags := .expField } else Level.zero := by
    intro i
    have := getLvl_setLvl (p := ({ w with used := w.used + 1, depth := w.depth + 1, cur := w.depth + 1 - 1 } : Parser))
      { Level.zero with ctype := .object, flags := .expField } hcur i
    rw [this, hcd]
    split
    · rfl
    · show w.getLvl i = _
      rw [hgw]; rename_i h; simp [h]
  refine ⟨_, rfl, u1, ?_, rfl, ?_, ?_, u2, hgf, ?_⟩
  · exact u6.trans hne
  · exact u4.trans (by show w.used + 1 = _; rw [t4, s4])
  · exact u5.trans (by show w.depth + 1 = _; rw [hwd])
  · simp only
    rw [u7]
    show (Tok.objBegin, _) :: st.ev = _
    rw [hgf]; simp [hcd]

end Binson

namespace Binson

/-- root `}` of an object document in VERIFY mode: the call returns; FORMAT iff bytes remain -/
theorem iter_root_objEnd {st : LoopSt} {sn : Option (List UInt8)} {oa od : Nat}
    (hsh : Shape st.p) (he : st.p.err = .none) (hsc : st.scan = some .verify) (hd : st.p.depth = 1)
    (hf : (st.p.getLvl 0).flags = .expField) (hod : od ≠ 1)
    (rest : Bytes) (hrem : st.p.rem = 0x41 :: rest) :
    ∃ st', iter st sn oa od = (st', .ret false) ∧ st'.ev = (.objEnd, Level.zero) :: st.ev ∧
      st'.p.err = (if rest = [] then .none else .format) ∧ st'.p.depth = 0 ∧ st.p.Frame st'.p := by
  have hli := hsh.lvlIdx_lt
  have hidx : st.p.lvlIdx = 0 := by unfold Parser.lvlIdx; rw [hd]; rfl
  have hcl := classify_objEnd hsh he st.bc rest hrem
  obtain ⟨_, hlt, hr1⟩ := rem_cons hsh hrem
  have h0 : 0 < st.p.levels.size := by rw [← hidx]; exact hli
  have hspl := hsh.hsp he 0
  have hina : (st.p.getLvl 0).flags.inArray = false := by rw [hf]; rfl
  unfold iter
  simp only [hcl, show Tok.objEnd ≠ Tok.error by decide, if_false, hidx]
  rw [objBlock_end rfl (by decide)]
  simp only [arrBlock_notArr _ _ _ hina]
  show ∃ st', caseObjEnd _ _ _ _ _ _ = (st', .ret false) ∧ _
  unfold caseObjEnd
  rw [if_neg (by simp [hf]), hsc, if_pos cont_verify.has_objEnd]
  have hodn : ¬ od = st.p.depth := by rw [hd]; exact hod
  dsimp only
  rw [if_neg hodn, if_neg (by intro h; exact hodn h.1)]
  obtain ⟨s1, s2, _, s4, s5, s6, s7, s8, s9, s10, s11⟩ :=
    setLvl_ok (p0 := st.p) hsh (Parser.Frame.refl _) (st.p.getLvl 0) h0 hspl
  generalize st.p.setLvl 0 (st.p.getLvl 0) = q at s1 s2 s4 s5 s6 s7 s8 s9 s10 s11
  have hq2 : Shape { q with used := q.used + 1 } := s1.withUsed (q.used + 1) (by rw [s4, s8]; omega)
  have hcur : ({ q with used := q.used + 1 } : Parser).cur < ({ q with used := q.used + 1 } : Parser).levels.size := hq2.cur_lt
  rw [touchLvl_of_lt hcur]
  have hqc : ({ q with used := q.used + 1 } : Parser).cur = 0 := by
    show q.cur = _; rw [s7, hsh.hcur, hidx]
  obtain ⟨t1, t2, _, t4, t5, t6, t7, t8, t9, t10, t11⟩ :=
    setLvl_ok (p0 := st.p) hq2 (s2.trans ⟨rfl, rfl, rfl, rfl, rfl⟩) Level.zero hcur (Level.zero_spansOk _)
  have hgw : (({ q with used := q.used + 1 } : Parser).setLvl ({ q with used := q.used + 1 } : Parser).cur Level.zero).getLvl 0 = Level.zero := by
    have := getLvl_setLvl (p := ({ q with used := q.used + 1 } : Parser)) Level.zero hcur 0
    rw [this, hqc]; simp
  generalize ({ q with used := q.used + 1 } : Parser).setLvl ({ q with used := q.used + 1 } : Parser).cur Level.zero = w
    at t1 t2 t4 t5 t6 t7 t8 t9 t10 t11 hgw
  have hwd : w.depth = 1 := by rw [t5]; show q.depth = 1; rw [s5, hd]
  rw [if_neg (by rw [hwd]; omega : ¬ w.depth > 1), if_pos hwd]
  try dsimp only
  have hwu : w.used = st.p.used + 1 := by rw [t4]; show q.used + 1 = _; rw [s4]
  have hws : w.size = st.p.size := t2.1
  have hwe : w.err = .none := by rw [t6]; show q.err = .none; rw [s6]; exact he
  -- trailing bytes?
  have hrl : (w.used ≠ w.size) ↔ rest ≠ [] := by
    rw [hwu, hws]
    unfold Parser.rem at hr1
    simp only at hr1
    have hlen : (st.p.buf.toList.drop (st.p.used + 1)).length = st.p.size - (st.p.used + 1) := by
      simp [hsh.hbs]
    rw [hr1] at hlen
    constructor
    · intro h hr; rw [hr] at hlen; simp at hlen; omega
    · intro h hu
      have : rest.length = 0 := by rw [hlen]; omega
      exact h (List.eq_nil_of_length_eq_zero this)
  by_cases hr : rest = []
  · have hu : w.used = w.size := by
      by_cases h : w.used = w.size
      · exact h
      · exact absurd (hrl.mp h) (by simp [hr])
    simp only [hu, ne_eq, not_true_eq_false, if_false, hr, if_true]
    refine ⟨_, rfl, ?_, hwe, rfl, t2.trans ⟨rfl, rfl, rfl, rfl, rfl⟩⟩
    show (Tok.objEnd, w.getLvl 0) :: st.ev = _
    rw [hgw]
  · have hu : ¬ w.used = w.size := fun h => (hrl.mpr hr) h
    simp only [hu, ne_eq, not_false_eq_true, if_true, hr, if_false]
    refine ⟨_, rfl, ?_, rfl, rfl, t2.trans ⟨rfl, rfl, rfl, rfl, rfl⟩⟩
    show (Tok.objEnd, w.getLvl 0) :: st.ev = _
    rw [hgw]

end Binson

namespace Binson

/-- root `[` of an array document: level 0 (depth stays 1) is inside one array -/
theorem iter_root_arrBegin {st : LoopSt} {sn : Option (List UInt8)} {oa od : Nat}
    (hsh : Shape st.p) (he : st.p.err = .none) (hsc : st.scan = some .verify) (hd : st.p.depth = 1)
    (hz : ∀ i, st.p.getLvl i = Level.zero) (rest : Bytes) (hrem : st.p.rem = 0x42 :: rest) :
    ∃ st', iter st sn oa od = (st', .cont) ∧ Shape st'.p ∧ st'.p.err = .none ∧ st'.scan = st.scan ∧
      st'.p.used = st.p.used + 1 ∧ st'.p.depth = 1 ∧ st.p.Frame st'.p ∧
      (∀ i, st'.p.getLvl i = if i = 0 then arrInnerLevel Level.zero else Level.zero) ∧
      st'.ev = (.arrBegin, arrInnerLevel Level.zero) :: st.ev := by
  have hli := hsh.lvlIdx_lt
  have hidx : st.p.lvlIdx = 0 := by unfold Parser.lvlIdx; rw [hd]; rfl
  have hcl := classify_arrBegin hsh he st.bc rest hrem
  have hlt := (rem_cons hsh hrem).2.1
  rw [hidx, hz 0] at hcl
  have h0 : 0 < st.p.levels.size := by rw [← hidx]; exact hli
  obtain ⟨s1, s2, _, s4, s5, s6, s7, s8, s9, s10, s11⟩ :=
    setLvl_ok (p0 := st.p) hsh (Parser.Frame.refl _) { Level.zero with ctype := .array } h0 (SpansOk_of_fields rfl rfl (Level.zero_spansOk _))
  have hgq : ∀ i, (st.p.setLvl 0 { Level.zero with ctype := .array }).getLvl i =
      if i = 0 then { Level.zero with ctype := .array } else Level.zero := by
    intro i; rw [getLvl_setLvl _ h0 i]; split
    · rfl
    · exact hz i
  generalize st.p.setLvl 0 { Level.zero with ctype := .array } = q at hcl s1 s2 s4 s5 s6 s7 s8 s9 s10 s11 hgq
  have hqi : q.lvlIdx = 0 := by unfold Parser.lvlIdx; rw [s5, hd]; rfl
  have h0q : 0 < q.levels.size := by rw [s9]; exact h0
  unfold iter
  simp only [hcl, show Tok.arrBegin ≠ Tok.error by decide, if_false]
  rw [hqi, hgq]
  simp only [if_true]
  have hob : objBlock { Level.zero with ctype := .array } .arrBegin = some ({ Level.zero with ctype := .array }, .arrBegin) := by
    unfold objBlock; simp [Level.zero, Flags.inObject]
  rw [hob]
  simp only [arrBlock_notArr _ _ _ (show ({ Level.zero with ctype := .array } : Level).flags.inArray = false from rfl)]
  show ∃ st', caseArrBegin _ _ _ _ _ = (st', .cont) ∧ _
  unfold caseArrBegin
  rw [if_neg (by simp [Level.zero]), hsc, if_pos cont_verify.has_arrBegin, cont_verify.clear_enterArr]
  dsimp only
  have hq1 : Shape { q with used := q.used + 1 } := s1.withUsed (q.used + 1) (by rw [s4, s8]; omega)
  have hqe : ({ q with used := q.used + 1 } : Parser).err = .none := by show q.err = .none; rw [s6]; exact he
  rw [finish_cont _ _ ({ q with used := q.used + 1 }) _ _ _ _ h0q hqe (Or.inr cont_verify)]
  obtain ⟨t1, t2, _, t4, t5, t6, t7, t8, t9, t10, t11⟩ :=
    setLvl_ok (p0 := st.p) hq1 (s2.trans ⟨rfl, rfl, rfl, rfl, rfl⟩) (arrInnerLevel Level.zero) h0q
      (SpansOk_of_fields rfl rfl (Level.zero_spansOk _))
  have hgf : ∀ i, (({ q with used := q.used + 1 } : Parser).setLvl 0 (arrInnerLevel Level.zero)).getLvl i =
      if i = 0 then arrInnerLevel Level.zero else Level.zero := by
    intro i
    rw [getLvl_setLvl_used q (q.used + 1) 0 _ h0q i]
    split
    · rfl
    · rw [hgq]; rename_i h; simp [h]
  have hc : (({ q with used := q.used + 1 } : Parser).setLvl 0 (arrInnerLevel Level.zero)).cur = 0 := by
    rw [t7]; show q.cur = _; rw [s7, hsh.hcur, hidx]
  refine ⟨_, rfl, t1, t6.trans hqe, rfl, t4.trans (by show q.used + 1 = _; rw [s4]), t5.trans (by show q.depth = 1; rw [s5, hd]), t2, hgf, ?_⟩
  show (Tok.arrBegin, (({ q with used := q.used + 1 } : Parser).setLvl 0 (arrInnerLevel Level.zero)).getLvl
    (({ q with used := q.used + 1 } : Parser).setLvl 0 (arrInnerLevel Level.zero)).cur) :: st.ev = _
  rw [hc, hgf]; simp

/-- root `]` of an array document in VERIFY mode: the call returns; FORMAT iff bytes remain -/
theorem iter_root_arrEnd {st : LoopSt} {sn : Option (List UInt8)} {oa od : Nat}
    (hsh : Shape st.p) (he : st.p.err = .none) (hsc : st.scan = some .verify) (hd : st.p.depth = 1) (hpt : st.p.ptype = 2)
    (hf : (st.p.getLvl 0).flags = .arr1 ∨ (st.p.getLvl 0).flags = .arr2) (had : (st.p.getLvl 0).ad = 1) (hoa : oa ≠ 1)
    (rest : Bytes) (hrem : st.p.rem = 0x43 :: rest) :
    ∃ st', iter st sn oa od = (st', .ret false) ∧
      st'.ev = (.arrEnd, { st.p.getLvl 0 with ad := 0, flags := .expField }) :: st.ev ∧
      st'.p.err = (if rest = [] then .none else .format) ∧ st.p.Frame st'.p := by
  have hli := hsh.lvlIdx_lt
  have hidx : st.p.lvlIdx = 0 := by unfold Parser.lvlIdx; rw [hd]; rfl
  have hcl := classify_arrEnd hsh he st.bc rest hrem
  obtain ⟨_, hlt, hr1⟩ := rem_cons hsh hrem
  have h0 : 0 < st.p.levels.size := by rw [← hidx]; exact hli
  have hspl := hsh.hsp he 0
  have hina : (st.p.getLvl 0).flags.inArray = true := by rcases hf with h | h <;> rw [h] <;> rfl
  unfold iter
  simp only [hcl, show Tok.arrEnd ≠ Tok.error by decide, if_false, hidx]
  rw [objBlock_end rfl (by decide)]
  have hno : decide (oa = (st.p.getLvl 0).ad ∧ od = st.p.depth) = false := by rw [had]; simp [hoa]
  simp only [hno, arrBlock_notOrig]
  show ∃ st', caseArrEnd _ _ _ _ _ _ _ = (st', .ret false) ∧ _
  unfold caseArrEnd
  simp only [hina, Bool.not_true, Bool.false_eq_true, if_false]
  rw [hsc, if_pos cont_verify.has_arrEnd]
  have hno2 : ¬ (od = st.p.depth ∧ oa = (st.p.getLvl 0).ad) := by rw [had]; intro h; exact hoa h.2
  try dsimp only
  rw [if_neg hno2, if_neg (by rw [had]; decide : ¬ (st.p.getLvl 0).ad = 0)]
  have h10 : (st.p.getLvl 0).ad - 1 = 0 := by rw [had]
  simp only [h10, if_true]
  rw [if_pos ⟨hpt, hd⟩]
  have hq1 : Shape { st.p with used := st.p.used + 1 } := hsh.withUsed (st.p.used + 1) (by omega)
  obtain ⟨t1, t2, _, t4, t5, t6, t7, t8, t9, t10, t11⟩ :=
    setLvl_ok (p0 := st.p) hq1 ⟨rfl, rfl, rfl, rfl, rfl⟩ { st.p.getLvl 0 with ad := 0, flags := .expField } h0
      (SpansOk_of_fields rfl rfl hspl)
  have hg := getLvl_setLvl_used st.p (st.p.used + 1) 0 { st.p.getLvl 0 with ad := 0, flags := .expField } h0 0
  generalize ({ st.p with used := st.p.used + 1 } : Parser).setLvl 0 { st.p.getLvl 0 with ad := 0, flags := .expField } = w
    at t1 t2 t4 t5 t6 t7 t8 t9 t10 t11 hg
  simp only [if_true] at hg
  have hwu : w.used = st.p.used + 1 := t4
  have hws : w.size = st.p.size := t2.1
  have hwe : w.err = .none := t6.trans he
  have hwc : w.cur = 0 := by rw [t7]; show st.p.cur = 0; rw [hsh.hcur, hidx]
  have hrl : (w.used ≠ w.size) ↔ rest ≠ [] := by
    rw [hwu, hws]
    unfold Parser.rem at hr1
    simp only at hr1
    have hlen : (st.p.buf.toList.drop (st.p.used + 1)).length = st.p.size - (st.p.used + 1) := by
      simp [hsh.hbs]
    rw [hr1] at hlen
    constructor
    · intro h hr; rw [hr] at hlen; simp at hlen; omega
    · intro h hu
      have : rest.length = 0 := by rw [hlen]; omega
      exact h (List.eq_nil_of_length_eq_zero this)
  by_cases hr : rest = []
  · have hu : w.used = w.size := by
      by_cases h : w.used = w.size
      · exact h
      · exact absurd (hrl.mp h) (by simp [hr])
    simp only [hu, ne_eq, not_true_eq_false, if_false, hr, if_true]
    refine ⟨_, rfl, ?_, hwe, t2⟩
    show (Tok.arrEnd, w.getLvl w.cur) :: st.ev = _
    rw [hwc, hg]
  · have hu : ¬ w.used = w.size := fun h => (hrl.mpr hr) h
    simp only [hu, ne_eq, not_false_eq_true, if_true, hr, if_false]
    refine ⟨_, rfl, ?_, rfl, t2.trans ⟨rfl, rfl, rfl, rfl, rfl⟩⟩
    show (Tok.arrEnd, w.getLvl w.cur) :: st.ev = _
    rw [hwc, hg]

end Binson
