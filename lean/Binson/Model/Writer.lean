/-
  Machine model, part 4: src/binson_writer.c. The destination is `mem` (its real extent);
  `cap` is the `buffer_size` the caller claimed. `fault` is the ghost "stored outside mem".
-/
import Binson.Model.Types
namespace Binson

structure Writer where
  cap : Nat
  used : Nat
  err : Err
  bufNull : Bool
  mem : Array UInt8
  fault : Bool := false
  deriving Repr, Inhabited

/-- `memmove(&buffer[off], data, len)` -/
def storeAt (mem : Array UInt8) (off : Nat) : List UInt8 → Array UInt8
  | [] => mem
  | b :: r => storeAt (mem.setIfInBounds off b) (off + 1) r

/-- `binson_writer_init` (non-NULL writer) -/
def Writer.init (mem : Array UInt8) (cap : Nat) (bufNull : Bool := false) : Writer × Bool :=
  if bufNull then ({ cap := 0, used := 0, err := .null, bufNull := true, mem := mem }, false)
  else ({ cap := cap, used := 0, err := .none, bufNull := false, mem := mem }, true)

/-- `binson_writer_reset` -/
def Writer.reset (w : Writer) : Writer × Bool :=
  if w.bufNull then ({ w with err := .null }, false) else
  if w.cap < 2 then ({ w with err := .range }, false) else
  ({ w with used := 0, err := .none }, true)

def Writer.counter (w : Writer) : Nat := w.used

/-- `_write` -/
def Writer.write (w : Writer) (data : List UInt8) : Writer × Bool :=
  let c := (w.used + data.length) % two64
  let err := if c > w.cap then Err.range else if c < w.used then Err.range else w.err
  let err := if w.bufNull then Err.null else err
  let w := { w with err := err }
  let w := if err = .none then
      { w with mem := storeAt w.mem w.used data,
               fault := w.fault || decide (w.mem.size < w.used + data.length) }
    else w
  ({ w with used := (w.used + data.length) % two64 }, decide (err = .none))

/-- `(uint64_t) value` -/
def toU64 (i : Int) : Nat := (i % (two64 : Int)).toNat

def leBytesM : Nat → Nat → List UInt8
  | 0, _ => []
  | w+1, n => UInt8.ofNat (n % 256) :: leBytesM w (n / 256)

/-- `_int_pack_size(value, buffer, false)` with `buffer[0] = base`: descriptor bytes -/
def packInt (base : UInt8) (v : Int) : List UInt8 :=
  if -128 ≤ v ∧ v ≤ 127 then base :: leBytesM 1 (toU64 v)
  else if -32768 ≤ v ∧ v ≤ 32767 then (base + 1) :: leBytesM 2 (toU64 v)
  else if -2147483648 ≤ v ∧ v ≤ 2147483647 then (base + 2) :: leBytesM 4 (toU64 v)
  else (base + 3) :: leBytesM 8 (toU64 v)

inductive WOp
  | objBegin | objEnd | arrBegin | arrEnd
  | bool (b : Bool) | int (v : Int) | dbl (bits : Nat)
  | str (s : List UInt8) | bytes (s : List UInt8) | raw (s : List UInt8)
  deriving Repr, Inhabited

/-- the string/bytes tail of `_write_token` -/
def Writer.writeBlob (w : Writer) (base : UInt8) (s : List UInt8) : Writer × Bool :=
  let w := if s.length > 2147483647 then { w with err := .format } else w
  let r := w.write (packInt base (s.length : Int))
  if s.length > 0 then r.1.write s else r

/-- every `binson_write_*` call (valid pointers) -/
def Writer.step (w : Writer) : WOp → Writer × Bool
  | .objBegin => w.write [0x40]
  | .objEnd => w.write [0x41]
  | .arrBegin => w.write [0x42]
  | .arrEnd => w.write [0x43]
  | .bool b => w.write [if b then 0x44 else 0x45]
  | .int v => w.write (packInt 0x10 v)
  | .dbl bits => w.write (0x46 :: leBytesM 8 bits)
  | .str s => w.writeBlob 0x14 s
  | .bytes s => w.writeBlob 0x18 s
  | .raw s => w.write s

def Writer.run (w : Writer) (ops : List WOp) : Writer := ops.foldl (fun w op => (w.step op).1) w

end Binson
