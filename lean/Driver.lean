/-
  Driver: replays the line protocol of harness/drive.c on the Lean model and evaluates the
  spec oracles (decodeRef, Cursor, render, encode) on the implementation's recorded answers.

    driver model <ops>                 print the model's observation for every op
    driver check <profile> <ops> <impl>   compare model with implementation line by line and run
                                       the oracles; prints MISMATCH / ORACLE / STATS lines

  Imports only Spec and Model (no proofs), so it still builds when a proof is broken.
-/
import Binson.Spec.Value
import Binson.Spec.Decode
import Binson.Spec.Render
import Binson.Spec.Cursor
import Binson.Model.Api
import Binson.Model.Counted
import Binson.Model.Writer
import Binson.Model.WriterX
import Binson.Model.Print
import Binson.Model.Transcribe
import Binson.Model.Cpp
import Binson.Spec.Canon
import Binson.Spec.WriterSpec

open Binson

/-! ## text helpers -/

def hexVal (c : Char) : Nat :=
  if c.isDigit then c.toNat - 48 else if 'a' ≤ c ∧ c ≤ 'f' then c.toNat - 87 else if 'A' ≤ c ∧ c ≤ 'F' then c.toNat - 55 else 0

def parseHex (s : String) : Array UInt8 := Id.run do
  if s == "-" then return #[]
  let cs := s.toList.toArray
  let mut out : Array UInt8 := Array.mkEmpty (cs.size / 2)
  let mut i := 0
  while i + 1 < cs.size do
    out := out.push (UInt8.ofNat (hexVal cs[i]! * 16 + hexVal cs[i+1]!))
    i := i + 2
  return out

def hexChar (n : Nat) : Char := if n < 10 then Char.ofNat (48 + n) else Char.ofNat (87 + n)

def hexOf (b : Array UInt8) : String := Id.run do
  if b.size == 0 then return "-"
  let mut cs : Array Char := Array.mkEmpty (2 * b.size)
  for x in b do
    cs := cs.push (hexChar (x.toNat / 16))
    cs := cs.push (hexChar (x.toNat % 16))
  return String.ofList cs.toList

def hex16 (v : UInt64) : String := Id.run do
  let mut cs : List Char := []
  let mut x := v.toNat
  for _ in [0:16] do
    cs := hexChar (x % 16) :: cs
    x := x / 16
  return String.ofList cs

def fnv (b : Array UInt8) : UInt64 := Id.run do
  let mut h : UInt64 := 1469598103934665603
  for x in b do
    h := (h ^^^ x.toUInt64) * 1099511628211
  return h

/-- same as `memout` in drive.c -/
def memOut (b : Array UInt8) : String :=
  if b.size ≤ 160 then hexOf b else s!"#{b.size}:{hex16 (fnv b)}"

def tyNum : Ty → Nat | .none=>0|.object=>1|.objectEnd=>2|.array=>3|.arrayEnd=>4|.boolean=>5|.integer=>6|.double=>7|.string=>8|.bytes=>9
def numTy (n : Nat) : Ty := match n with
  | 1 => .object | 2 => .objectEnd | 3 => .array | 4 => .arrayEnd | 5 => .boolean | 6 => .integer | 7 => .double | 8 => .string | 9 => .bytes | _ => .none
def errNum : Err → Nat | .none=>0|.range=>1|.format=>2|.eof=>3|.endOfBlock=>4|.null=>5|.state=>6|.wrongType=>7|.maxDepthObject=>8|.maxDepthArray=>9

def spanStr : Option Span → String
  | some s => s!"{s.off}+{s.len}"
  | none => "NULL"

/-! ## the model side -/

structure PM where
  p : Parser
  deriving Inhabited

structure World where
  ps : Array (Option Parser) := #[none, none, none, none]
  ws : Array (Option Writer) := #[none, none, none, none]

def getP (w : World) (k : Nat) : Option Parser := (w.ps.getD k none)
def setP (w : World) (k : Nat) (p : Parser) : World := { w with ps := w.ps.setIfInBounds k (some p) }
def getW (w : World) (k : Nat) : Option Writer := (w.ws.getD k none)
def setW (w : World) (k : Nat) (x : Writer) : World := { w with ws := w.ws.setIfInBounds k (some x) }

/-- the uniform parser observation of `pobs` in drive.c; `cb` = callbacks during the call -/
def pobs (p : Parser) (ret : String) (cb : Nat) : String :=
  let t := getType p
  let nm := if p.err = .none then (match (p.getLvl p.cur).name with | some s => s!"{s.off}+{s.len}" | none => "-") else "-"
  let v := if p.err ≠ .none then "x" else match t with
    | .integer => s!"i{getInteger p}"
    | .boolean => s!"b{(getBoolean p).toNat}"
    | .double => s!"d{getDouble p}"
    | .string => s!"s{spanStr (getStringBbuf p)}"
    | .bytes => s!"y{spanStr (getBytesBbuf p)}"
    | _ => "_"
  let ghosts := (if p.fault then " FAULT" else "") ++ (if p.oof then " OUTOFFUEL" else "")
  s!"{ret} e{errNum p.err} d{getDepth p} u{p.used} t{tyNum t} n{nm} {v} c{cb}{ghosts}"

def wobs (w : Writer) (ret : Bool) : String :=
  s!"{ret.toNat} e{errNum w.err} c{w.counter}" ++ (if w.fault then " FAULT" else "")

def flagsOfWord (f : Nat) : Flags := .junk (f % 4 != 0) ((f / 4) % 4 != 0)

def pattern (n : Nat) : Array UInt8 := Array.replicate n 0xAA

/-! ### C++ class: tree text `{ k<hex> <v> ... }  [ <v> ... ]  t f i<dec> d<bits> s<hex> y<hex>` (insertion order) -/
partial def parseTreeValue : List String → Option (Value × List String)
  | [] => none
  | x :: r =>
    if x == "t" then some (.bool true, r)
    else if x == "f" then some (.bool false, r)
    else if x == "{" then (parseTreeFields r).map fun (fs, r') => (.obj fs, r')
    else if x == "[" then (parseTreeElems r).map fun (xs, r') => (.arr xs, r')
    else if x.startsWith "i" then some (.int (x.drop 1).toString.toInt!, r)
    else if x.startsWith "d" then some (.dbl (UInt64.ofNat (x.drop 1).toString.toNat!), r)
    else if x.startsWith "s" then some (.str (parseHex (x.drop 1).toString).toList, r)
    else if x.startsWith "y" then some (.bytes (parseHex (x.drop 1).toString).toList, r)
    else none
where
  parseTreeFields : List String → Option (Fields × List String)
    | [] => none
    | x :: r =>
      if x == "}" then some (.nil, r) else
      if x.startsWith "k" then
        match parseTreeValue r with
        | some (v, r') => (parseTreeFields r').map fun (fs, r'') => (.cons (parseHex (x.drop 1).toString).toList v fs, r'')
        | none => none
      else none
  parseTreeElems : List String → Option (Elems × List String)
    | [] => none
    | x :: r =>
      if x == "]" then some (.nil, r) else
      match parseTreeValue (x :: r) with
      | some (v, r') => (parseTreeElems r').map fun (xs, r'') => (.cons v xs, r'')
      | none => none

def hexL (b : List UInt8) : String := hexOf b.toArray

def cppDes (k : Nat) (bytes : Array UInt8) : Except String Fields :=
  -- overloads 1 and 2 build the parser themselves; overload 3 is handed an initialised parser
  if k == 3 then
    let r := init (garbageParser 10) bytes 1
    if !r.2 then .error "Parser init error" else cppDeserializeP r.1
  else if k == 4 then        -- the parser handed over is in the middle of a traversal
    let r := init (garbageParser 10) bytes 1
    if !r.2 then .error "Parser init error" else cppDeserializeP (next (next (goIntoObject r.1).1).1).1
  else if k == 5 then        -- the parser handed over has its error flag set
    let r := init (garbageParser 10) bytes 1
    if !r.2 then .error "Parser init error" else cppDeserializeP (getName r.1).1
  else cppDeserialize bytes

def execCpp (toks : List String) : Option String :=
  match toks with
  | "xs" :: tree =>
    (match parseTreeValue tree with
     | some (.obj fs, _) => (match putAll (.obj fs) with
        | .obj m => some s!"ok {hexL (cppSerialize m)}"
        | _ => some "exc bad tree")
     | _ => some "exc tree must be an object")
  | "xt" :: tree =>
    -- Binson::toStr(): serialize, a depth-10 parser, to_string with a 10-byte first try and a retry at the reported size; "" when refused
    (match parseTreeValue tree with
     | some (.obj fs, _) => (match putAll (.obj fs) with
        | .obj m =>
          let bytes := cppSerialize m
          if bytes.isEmpty then some "ok -" else
          let r := init (garbageParser 10) bytes.toArray 1
          if !r.2 then some "ok -" else
          let t1 := toString' stdFmts r.1 (some (pattern 10)) 10
          let t := if t1.2.1 then t1 else toString' stdFmts t1.1 (some (pattern t1.2.2.1)) t1.2.2.1
          if t.2.1 then some s!"ok {hexOf (t.2.2.2.1.extract 0 t.2.2.1)}" else some "ok -"
        | _ => some "exc bad tree")
     | _ => some "exc tree must be an object")
  | op :: tree =>
    if op.startsWith "xr" then
      let k := ((op.drop 2).toString.take 1).toString.toNat!      -- a trailing 'p' (destination pre-populated) does not change what the model returns
      (match parseTreeValue tree with
       | some (.obj fs, _) => (match putAll (.obj fs) with
          | .obj m =>
            let b := cppSerialize m
            (match cppDes k b.toArray with
             | .ok m2 => some s!"ok {hexL b} {hexL (cppSerialize m2)}"
             | .error e => some s!"exc {e}")
          | _ => some "exc bad tree")
       | _ => some "exc tree must be an object")
    else if op.startsWith "xd" then
      let k := ((op.drop 2).toString.take 1).toString.toNat!
      (match tree with
       | [_, hx] => (match cppDes k (parseHex hx) with
          | .ok m => some s!"ok {hexL (cppSerialize m)}"
          | .error e => some s!"exc {e}")
       | _ => some "bad-op")
    else none
  | [] => none

/-- execute one op on the model; `hint` is the implementation's line (only used for the garbage
    facts of `P`). Returns the new world and the observation line. -/
def execModel (w : World) (toks : List String) (hint : String) : World × String :=
  let (k, toks) := match toks with
    | t :: r => if t.startsWith "@" then ((t.drop 1).toString.toNat!, r) else (0, toks)
    | [] => (0, [])
  let k := k % 4
  let withP (f : Parser → World × String) : World × String :=
    match getP w k with | some p => f p | none => (w, "no-parser")
  let withW (f : Writer → World × String) : World × String :=
    match getW w k with | some x => f x | none => (w, "no-writer")
  let boolOp (f : Parser → Parser × Bool × Nat) : World × String :=
    withP fun p => let r := f p; (setP w k r.1, pobs r.1 (toString r.2.1.toNat) r.2.2)
  let wOp (op : WOp) : World × String :=
    withW fun x => let r := x.step op; (setW w k r.1, wobs r.1 r.2)
  match (if (toks.headD "").startsWith "x" then execCpp toks else none) with
  | some out => (w, out)
  | none =>
  match toks with
  | ["M", t] => (w, s!"M {t}")
  | ["C", id] => ({}, s!"C {id}")
  | ["K", _] => (w, "K")
  | "P" :: md :: _ :: rest =>
    let f0 : Nat := match rest with
      | f :: _ => f.toNat!
      | [] => (match hint.splitOn " f" with | [_, f] => f.trimAscii.toString.toNat! | _ => 0)
    (setP w k (garbageParser md.toNat! (flagsOfWord f0)), s!"P {md} f{f0}")
  | ["I", t, hx] =>
    withP fun p => let r := init p (parseHex hx) (if t == "a" then 2 else 1); (setP w k r.1, pobs r.1 (toString r.2.toNat) 0)
  -- "I <t> <hex> s": init again over the same memory (same pointer and size, contents replaced): the same call for the model
  | ["I", t, hx, _] =>
    withP fun p => let r := init p (parseHex hx) (if t == "a" then 2 else 1); (setP w k r.1, pobs r.1 (toString r.2.toNat) 0)
  | ["B", hx] => withP fun p =>
      let nb := parseHex hx
      if nb.size == p.buf.size && p.buf.size == p.size then (setP w k { p with buf := nb }, "B ok") else (w, "B size-mismatch")
  | ["r"] => boolOp fun p => let r := reset p; (r.1, r.2, 0)
  | ["v"] => boolOp fun p => let r := verify p; (r.1, r.2.1, r.2.2.length)
  | ["n"] => boolOp nextC
  | ["N", t] => boolOp fun p => nextEnsureC p (numTy t.toNat!)
  | ["io"] => boolOp goIntoObjectC
  | ["ia"] => boolOp goIntoArrayC
  | ["lo"] => boolOp leaveObjectC
  | ["la"] => boolOp leaveArrayC
  | ["f", hx] => boolOp fun p => fieldC p (parseHex hx).toList
  | ["fz", hx] => boolOp fun p => fieldC p (parseHex hx).toList
  | ["F", hx, t] => boolOp fun p => fieldEnsureC p (parseHex hx).toList (numTy t.toNat!)
  | ["Fz", hx, t] => boolOp fun p => fieldEnsureC p (parseHex hx).toList (numTy t.toNat!)
  | ["gt"] => withP fun p => (w, pobs p s!"T{tyNum (getType p)}" 0)
  | ["gD"] => withP fun p => (w, pobs p s!"D{getDepth p}" 0)
  | ["gn"] => withP fun p => let r := getName p; (setP w k r.1, pobs r.1 s!"N{spanStr r.2}" 0)
  | ["gs"] => withP fun p => (w, pobs p s!"S{spanStr (getStringBbuf p)}" 0)
  | ["gy"] => withP fun p => (w, pobs p s!"Y{spanStr (getBytesBbuf p)}" 0)
  | ["gi"] => withP fun p => (w, pobs p s!"I{getInteger p}" 0)
  | ["gb"] => withP fun p => (w, pobs p s!"B{(getBoolean p).toNat}" 0)
  | ["gd"] => withP fun p => (w, pobs p s!"G{getDouble p}" 0)
  | ["se", hx] => withP fun p => (w, pobs p s!"E{(stringEquals p (parseHex hx).toList).toNat}" 0)
  | ["gr"] => withP fun p =>
      let r := getRawC p
      (setP w k r.1, pobs r.1 (if r.2.1 then s!"1R{r.2.2.1.off}+{r.2.2.1.len}" else "0R-") r.2.2.2)
  | "ts" :: cap :: rest => withP fun p =>
      let isNull := cap == "NULL"
      let capN := if isNull then 0 else cap.toNat!
      let claimed := match rest with | c :: _ => c.toNat! | [] => capN
      let r := toString' stdFmts p (if isNull then none else some (pattern capN)) claimed
      let p' := r.1
      let m := if isNull then "NULL" else memOut r.2.2.2.1
      let x := if r.2.1 && !isNull then memOut (r.2.2.2.1.extract 0 (min (r.2.2.1 + 1) capN)) else "-"
      (setP w k p', s!"{r.2.1.toNat} z{r.2.2.1} m{m} x{x} e{errNum p'.err} d{getDepth p'} u{p'.used}" ++ (if r.2.2.2.2 || p'.fault then " FAULT" else ""))
  -- to_string into a destination of 2 GiB + 4 KiB: by `to_string_protocol` any sufficient capacity gives the same answer,
  -- so the model runs it with a destination that is just large enough
  | ["tsH"] => withP fun p =>
      if hint.trimAscii.toString == "skip" then (w, "skip") else     -- the 2 GiB mapping was refused on this machine: the call was not made
      let q := toString' stdFmts p none 0
      let capN := q.2.2.1 + 8
      let r := toString' stdFmts p (some (pattern capN)) capN
      let p' := r.1
      let show_ := if r.2.1 then min (r.2.2.1 + 1) 64 else 0
      (setP w k p', s!"{r.2.1.toNat} z{r.2.2.1} m{memOut (r.2.2.2.1.extract 0 show_)} e{errNum p'.err} d{getDepth p'} u{p'.used}" ++ (if r.2.2.2.2 || p'.fault then " FAULT" else ""))
  -- time class of to_string on one large bytes value: the specification is "linear" (C16); nothing to compute
  | ["tq", _] => (w, "lin")
  | ["tq", _, _] => (w, "lin")
  | ["pr"] => withP fun p =>
      let r := print stdFmts p
      let p' := r.1
      (setP w k p', s!"{r.2.1.toNat} o{memOut r.2.2.toArray} e{errNum p'.err} d{getDepth p'} u{p'.used}")
  | ["W", cap] =>
      let isNull := cap == "NULL"
      let capN := if isNull then 0 else cap.toNat!
      let r := Writer.init (pattern capN) capN isNull
      (setW w k r.1, wobs r.1 r.2)
  | ["wx"] => withW fun x => let r := x.reset; (setW w k r.1, wobs r.1 r.2)
  -- a NULL argument (binson_write_name(w, NULL), binson_write_raw(w, NULL, n)): ERROR_NULL, false, nothing stored or counted.
  -- Outside `WOp` (the theorems assume valid arguments); modelled here so that the latch and reset oracles see such histories.
  | ["wnN"] => withW fun x => let r := x.stepX .nullName; (setW w k r.1, wobs r.1 r.2)
  | ["wrN", n] => withW fun x => let r := x.stepX (.nullRaw n.toNat!); (setW w k r.1, wobs r.1 r.2)
  -- binson_write_raw(w, p, SIZE_MAX): `WOpX.hugeRaw` (Model/WriterX.lean; refused by the capacity test, c04_huge_length_refused)
  | ["wrH"] => withW fun x => let r := x.stepX .hugeRaw; (setW w k r.1, wobs r.1 r.2)
  | ["wob"] => wOp .objBegin
  | ["woe"] => wOp .objEnd
  | ["wab"] => wOp .arrBegin
  | ["wae"] => wOp .arrEnd
  | ["wb", b] => wOp (.bool (b != "0"))
  | ["wi", v] => wOp (.int v.toInt!)
  | ["wd", b] => wOp (.dbl b.toNat!)
  | ["ws", hx] => wOp (.str (parseHex hx).toList)
  | ["wn", hx] => wOp (.str (parseHex hx).toList)
  | ["wy", hx] => wOp (.bytes (parseHex hx).toList)
  -- the empty value handed over as (NULL, 0): same call for the model
  | ["ws", hx, "N"] => wOp (.str (parseHex hx).toList)
  | ["wn", hx, "N"] => wOp (.str (parseHex hx).toList)
  | ["wy", hx, "N"] => wOp (.bytes (parseHex hx).toList)
  | ["wr", hx] => wOp (.raw (parseHex hx).toList)
  -- binson_write_raw(w, destination + off, len): memmove semantics = the bytes that were there before the call
  | ["wrA", off, len] => withW fun x =>
      if x.bufNull || off.toNat! + len.toNat! > x.cap then (w, "skip")
      else let r := x.step (.raw (x.mem.extract off.toNat! (off.toNat! + len.toNat!)).toList); (setW w k r.1, wobs r.1 r.2)
  | ["wc"] => withW fun x => (w, wobs x true)
  | ["wv"] => withW fun x => if x.bufNull || x.used > x.cap then (w, "skip") else (w, wobs x (writerVerify x))
  | ["dump"] => withW fun x => (w, "m" ++ (if x.bufNull then "NULL" else memOut x.mem))
  | ["p2w"] => withP fun p => withW fun x =>
      let r := parserToWriter p x
      (setW (setP w k r.1) k r.2.1, pobs r.1 (toString r.2.2.toNat) (getRawC p).2.2.2 ++ " | " ++ wobs r.2.1 r.2.2)
  -- the in-place variant runs on objects of its own (world unchanged); what it must produce is what the plain transcription produces
  | ["tr", cap, _] => withP fun p =>
      let capN := cap.toNat!
      let x := (Writer.init (pattern capN) capN).1
      let r := transcribe p x
      let x' := r.2.1
      (w, s!"{r.2.2.toNat} e{errNum r.1.err} we{errNum x'.err} c{x'.counter} m{memOut x'.mem}" ++ (if r.1.fault || x'.fault then " FAULT" else ""))
  | ["tr", cap] => withP fun p =>
      let capN := cap.toNat!
      let x := (Writer.init (pattern capN) capN).1
      let r := transcribe p x
      let x' := r.2.1
      (setW (setP w k r.1) k x', s!"{r.2.2.toNat} e{errNum r.1.err} we{errNum x'.err} c{x'.counter} m{memOut x'.mem}" ++ (if r.1.fault || x'.fault then " FAULT" else ""))
  | _ => (w, "bad-op")

/-! ## the oracle side: spec definitions evaluated on the implementation's answers -/

structure Obs where
  ret : String := ""
  err : Nat := 0
  depth : Nat := 0
  used : Nat := 0
  ty : Nat := 0
  name : String := "-"
  val : String := "_"
  ncb : Nat := 0
  ok : Bool := false       -- parsed as a parser observation
  deriving Inhabited

def dropPrefix (s : String) (n : Nat) : String := (s.drop n).toString

def parseObs (line : String) : Obs :=
  match line.splitOn " " with
  | r :: e :: d :: u :: t :: n :: v :: c :: _ =>
    if e.startsWith "e" && d.startsWith "d" && u.startsWith "u" && t.startsWith "t" && n.startsWith "n" && c.startsWith "c" then
      { ret := r, err := (dropPrefix e 1).toNat!, depth := (dropPrefix d 1).toNat!, used := (dropPrefix u 1).toNat!,
        ty := (dropPrefix t 1).toNat!, name := dropPrefix n 1, val := v, ncb := ((dropPrefix c 1).toNat?).getD 0, ok := true }
    else {}
  | _ => {}

/-- "off+len" -> span -/
def parseSpan (s : String) : Option Span :=
  match s.splitOn "+" with
  | [a, b] => (match a.toNat?, b.toNat? with | some x, some y => some ⟨x, y⟩ | _, _ => none)
  | _ => none

structure POracle where
  doc : Array UInt8 := #[]
  md : Nat := 0
  root : Root := .object
  value : Option Value := none          -- decodeDoc of the bytes (valid at this depth)
  inited : Bool := false
  cursor : Option Cursor := none        -- reference cursor while the history is protocol-following
  latched : Nat := 0                    -- error code seen (C09), 0 = none
  nest : Nat := 0                       -- C08: containers entered and not left
  everEntered : Bool := false
  travFail : Bool := false              -- C08: some enter/leave/raw call failed
  travOps : Nat := 0
  lastErr : Nat := 0
  lastUsed : Nat := 0                   -- cursor after the previous call (C16)
  afterRaw : Bool := false              -- the previous judged call was get_raw / to_writer on a container (C11: "the cursor continues with the element that follows")
  pendingCont : Bool := false           -- the last advancing call returned true on an un-entered container (judged from the observations, any document)
  deriving Inhabited

structure WOracle where
  cap : Nat := 0
  isNull : Bool := false
  pieces : List Bytes := []             -- payload of every `_write`, newest first
  total : Nat := 0
  broken : Bool := false                -- a call whose effect the oracle does not predict (reset failed, ...)
  toks : List WOp := []                 -- ops since init/reset, newest first (C05 tree builder)
  base : Array UInt8 := #[]             -- destination contents at the last init / successful reset
  lastE : String := "e0"                -- the writer part of the last observation (C11: a refused to_writer changes nothing)
  lastC : String := "c0"
  resetSeen : Bool := false             -- C12: a reset has returned true since the last init
  failSeen : Bool := false              -- C09: some write call has returned false since the last init / successful reset
  errNow : Bool := false                -- C09: the implementation reported a non-zero writer error in its last observation
  lastDump : Option String := none      -- C09: the last dump, if the error was already latched when it was taken
  deriving Inhabited

structure OState where
  ps : Array POracle := #[{}, {}, {}, {}]
  ws : Array WOracle := #[{}, {}, {}, {}]
  regionA : List String := []
  regionB : List String := []
  region : Nat := 0                     -- 0 none, 1 in a, 2 in b
  viol : List String := []
  profile : String := ""
  -- distribution
  nOps : Nat := 0
  nCases : Nat := 0
  nDocsValid : Nat := 0
  nDocsInvalid : Nat := 0
  nCursorJudged : Nat := 0
  nVerifyJudged : Nat := 0
  nTextJudged : Nat := 0
  nWriterJudged : Nat := 0
  nStreamJudged : Nat := 0
  nLatchJudged : Nat := 0
  nReuseJudged : Nat := 0
  nSpanJudged : Nat := 0
  nCostJudged : Nat := 0
  errHist : Array Nat := Array.replicate 10 0
  opHist : List (String × Nat) := []

def OState.flag (o : OState) (prop what : String) : OState := { o with viol := s!"{prop} {what}" :: o.viol }

def itemVal (it : Item) : String :=
  match it.ty, it.val with
  | .integer, .int v => s!"i{v}"
  | .boolean, .bool b => s!"b{b.toNat}"
  | .double, .dbl d => s!"d{d}"
  | .string, .span s => s!"s{s.off}+{s.len}"
  | .bytes, .span s => s!"y{s.off}+{s.len}"
  | _, _ => "_"

/-- C05: rebuild the value tree from a well-formed op sequence (oldest first). -/
partial def buildValue : List WOp → Option (Value × List WOp)
  | .bool b :: r => some (.bool b, r)
  | .int v :: r => some (.int v, r)
  | .dbl d :: r => some (.dbl (UInt64.ofNat d), r)
  | .str s :: r => some (.str s, r)
  | .bytes s :: r => some (.bytes s, r)
  | .arrBegin :: r => (buildElems r).map fun (xs, r') => (.arr xs, r')
  | .objBegin :: r => (buildFields r).map fun (fs, r') => (.obj fs, r')
  | _ => none
where
  buildElems : List WOp → Option (Elems × List WOp)
    | .arrEnd :: r => some (.nil, r)
    | ops => match buildValue ops with
      | some (v, r) => (buildElems r).map fun (xs, r') => (.cons v xs, r')
      | none => none
  buildFields : List WOp → Option (Fields × List WOp)
    | .objEnd :: r => some (.nil, r)
    | .str n :: r => (match buildValue r with
      | some (v, r') => (buildFields r').map fun (fs, r'') => (.cons n v fs, r'')
      | none => none)
    | _ => none

def isAdvancing (op : String) : Bool :=
  ["n", "N", "io", "ia", "lo", "la", "f", "fz", "F", "Fz", "gr", "p2w"].contains op

def bump (h : List (String × Nat)) (k : String) : List (String × Nat) :=
  match h with
  | [] => [(k, 1)]
  | (a, n) :: r => if a == k then (a, n + 1) :: r else (a, n) :: bump r k

/-- check every span an observation mentions against the buffer size (C01) -/
def spansInside (size : Nat) (line : String) : Bool :=
  (line.splitOn " ").all fun tk =>
    let body := if tk.startsWith "1R" then dropPrefix tk 2 else dropPrefix tk 1
    if tk.length ≥ 4 && (tk.startsWith "n" || tk.startsWith "s" || tk.startsWith "y" || tk.startsWith "1R" ||
        tk.startsWith "N" || tk.startsWith "S" || tk.startsWith "Y") && body.contains '+' then
      match parseSpan body with
      | some s => decide (s.off + s.len ≤ size)
      | none => true
    else true

def textOracle (o : OState) (po : POracle) (toks : List String) (impl : String) : OState :=
  -- C13/C14: `ts <cap|NULL> [claimed]` and `pr`
  let parts := impl.splitOn " "
  match toks, parts with
  | ["tsH"], r :: z :: _ =>
    -- a capacity of 2 GiB + 4 KiB is "at least that size": true, *size = text length (valid documents); false otherwise
    let o := { o with nTextJudged := o.nTextJudged + 1 }
    (match po.value with
     | none => if r != "0" then o.flag "C13" s!"to_string returned {r} for a document verify must reject" else o
     | some v =>
       let n := (render stdFmts v).length
       if r != "1" || (dropPrefix z 1).toNat! != n then o.flag "C13" s!"capacity 2^31+4096 > text length {n}: expected ret 1 size {n}, got ret {r} size {z}" else o)
  | "ts" :: cap :: rest, r :: z :: m :: xfield :: _ =>
    let o := { o with nTextJudged := o.nTextJudged + 1 }
    let isNull := cap == "NULL"
    let capN := if isNull then 0 else cap.toNat!
    let claimed := if isNull then 0 else match rest with | c :: _ => c.toNat! | [] => capN
    let zN := (dropPrefix z 1).toNat!
    let mem := dropPrefix m 1
    match po.value with
    | none => if r != "0" then o.flag "C13" s!"to_string returned {r} for a document verify must reject" else o
    | some v =>
      let text := render stdFmts v
      let n := text.length
      let o := if claimed ≤ n then
          (if r != "0" || zN != n + 1 then o.flag "C13" s!"capacity {claimed} <= text length {n}: expected ret 0 size {n+1}, got ret {r} size {zN}" else o)
        else
          (if r != "1" || zN != n then o.flag "C13" s!"capacity {claimed} > text length {n}: expected ret 1 size {n}, got ret {r} size {zN}" else o)
      -- nothing stored at or beyond the claimed capacity; on success the text and its NUL
      if isNull then o else
      -- whenever the call says true, what it stored is the reference text (C14), whatever the capacity
      let o := if r == "1" && !isNull && dropPrefix xfield 1 != "-" && claimed ≤ n && claimed ≤ capN then
          o.flag "C14" s!"to_string returned true but the destination does not hold the reference rendering followed by NUL: got {dropPrefix xfield 1} want {memOut (text ++ [0]).toArray}" else o
      -- the text and its terminator (what lies after the terminator inside the capacity is not specified by C13/C14)
      let expect : Array UInt8 := (text ++ [0]).toArray
      let gotx := dropPrefix xfield 1
      let o := if claimed > n && claimed ≤ capN && gotx != memOut expect then
          (o.flag "C14" s!"text differs from the reference rendering: got {gotx} want {memOut expect}").flag
            "C13" s!"capacity {claimed} > text length {n}: the destination does not hold the text followed by NUL: got {gotx} want {memOut expect}" else o
      if capN ≤ 160 && claimed ≤ capN then
        let got := parseHex mem
        let tailOk := (List.range (capN - claimed)).all fun i => got.getD (claimed + i) 0 == 0xAA
        if !tailOk then o.flag "C13" s!"bytes at or beyond the capacity {claimed} were modified: {mem}" else o
      else o
  | ["pr"], r :: out :: _ =>
    let o := { o with nTextJudged := o.nTextJudged + 1 }
    (match po.value with
     | none => if r != "0" then o.flag "C14" "print returned true for a document verify must reject" else o
     | some v =>
       let text := render stdFmts v
       if r != "1" || dropPrefix out 1 != memOut text.toArray then
         o.flag "C14" s!"stdout differs from the reference rendering: got {out} want o{memOut text.toArray}" else o)
  | _, _ => o

def cursorOracle (o : OState) (k : Nat) (po : POracle) (op : String) (toks : List String) (ob : Obs) : OState × POracle :=
  match po.cursor with
  | none => (o, po)
  | some c =>
    let stop : OState × POracle := (o, { po with cursor := none })
    let expectDepth (o : OState) (c : Cursor) : OState :=
      if ob.depth != c.depth then
        let o := o.flag "C06" s!"@{k} {op}: get_depth {ob.depth}, reference cursor {c.depth}"
        if op == "gr" then o.flag "C11" s!"@{k} get_raw: get_depth {ob.depth}, reference cursor {c.depth}" else o
      else o
    let noErr (o : OState) : OState :=
      if ob.err != 0 then
        let o := o.flag "C06" s!"@{k} {op}: error {ob.err} raised on a protocol-following call of a valid document"
        if op == "gr" then o.flag "C11" s!"@{k} get_raw raised error {ob.err} (on a container it succeeds, on any other value it returns false and changes nothing)" else o
      else o
    let navOp (cop : COp) (prop : String) : OState × POracle :=
      if !c.allowed cop then stop else
      let (c', res) := c.step cop
      let o := { o with nCursorJudged := o.nCursorJudged + 1 }
      let o := noErr o
      let o := expectDepth o c'
      let wantRet := match cop with
        | .raw => if res.ok then (match res.raw with | some s => s!"1R{s.off}+{s.len}" | none => "1R?") else "0R-"
        | _ => toString res.ok.toNat
      let o := if ob.ret != wantRet then o.flag prop s!"@{k} {op}: returned {ob.ret}, reference cursor {wantRet}" else o
      -- C11: the call right after a successful get_raw must see the element that follows the container
      let follows := po.afterRaw && prop != "C11"
      let o := if follows && ob.ret != wantRet then o.flag "C11" s!"@{k} {op} after get_raw: returned {ob.ret}, reference cursor {wantRet} (the cursor does not continue with the element that follows the container)" else o
      let o := match res.item with
        | some it =>
          let o := if follows && ob.ty != tyNum it.ty then o.flag "C11" s!"@{k} {op} after get_raw: type {ob.ty}, reference {tyNum it.ty} (the cursor does not continue with the element that follows the container)" else o
          let o := if ob.ty != tyNum it.ty then o.flag prop s!"@{k} {op}: type {ob.ty}, reference {tyNum it.ty}" else o
          let o := if ob.val != itemVal it then o.flag "C03" s!"@{k} {op}: value {ob.val}, reference {itemVal it}" else o
          (match it.name with
           | some (_, s) => if ob.name != s!"{s.off}+{s.len}" then o.flag "C03" s!"@{k} {op}: name span {ob.name}, reference {s.off}+{s.len}" else o
           | none => o)
        | none => o
      (o, { po with cursor := some c', afterRaw := (cop matches .raw) && res.ok })
    match op, toks with
    | "n", _ => navOp .next "C06"
    | "io", _ => navOp .enterObj "C06"
    | "ia", _ => navOp .enterArr "C06"
    | "lo", _ => navOp .leaveObj "C06"
    | "la", _ => navOp .leaveArr "C06"
    | "gr", _ => navOp .raw "C11"
    | "f", [_, hx] => navOp (.field (parseHex hx).toList) "C07"
    | "fz", [_, hx] => navOp (.field (parseHex hx).toList) "C07"
    | "F", [_, hx, t] | "Fz", [_, hx, t] =>
      if !c.allowed (.field []) then stop else
      let (c', res) := c.step (.field (parseHex hx).toList)
      let o := { o with nCursorJudged := o.nCursorJudged + 1 }
      (match res.item with
       | some it =>
         if tyNum it.ty == t.toNat! then
           let o := if ob.ret != "1" || ob.err != 0 then o.flag "C07" s!"@{k} field_ensure: present with matching type, got ret {ob.ret} err {ob.err}" else o
           (o, { po with cursor := some c' })
         else
           let o := if ob.ret != "0" || ob.err != 7 then o.flag "C07" s!"@{k} field_ensure: type differs, expected false + WRONG_TYPE, got ret {ob.ret} err {ob.err}" else o
           (o, { po with cursor := none })
       | none =>
         let o := if ob.ret != "0" || ob.err != 0 then o.flag "C07" s!"@{k} field_ensure: absent name, expected false without error, got ret {ob.ret} err {ob.err}" else o
         (o, { po with cursor := some c' }))
    | "gt", _ | "gi", _ | "gb", _ | "gd", _ | "gs", _ | "gy", _ | "se", _ | "gD", _ | "gn", _ =>
      -- getters: specified while positioned on a value (C03); otherwise only get_depth
      let o := if op == "gD" then (if ob.ret != s!"D{c.depth}" then o.flag "C06" s!"@{k} get_depth {ob.ret}, reference D{c.depth}" else o) else o
      (match c.cur with
       | some n =>
         let it := n.item
         let o := { o with nCursorJudged := o.nCursorJudged + 1 }
         let want : Option String := match op with
           | "gt" => some s!"T{tyNum it.ty}"
           | "gi" => some (match it.val with | .int v => s!"I{v}" | _ => "I0")
           | "gb" => some (match it.val with | .bool b => s!"B{b.toNat}" | _ => "B0")
           | "gd" => some (match it.val with | .dbl d => s!"G{d}" | _ => "G0")
           | "gs" => some (match it.ty, it.val with | .string, .span s => s!"S{s.off}+{s.len}" | _, _ => "SNULL")
           | "gy" => some (match it.ty, it.val with | .bytes, .span s => s!"Y{s.off}+{s.len}" | _, _ => "YNULL")
           | "gn" => (match it.name with | some (_, s) => some s!"N{s.off}+{s.len}" | none => none)
           | "se" => (match toks with
               | [_, hx] => some s!"E{(decide (it.ty = .string ∧ it.payload = (parseHex hx).toList)).toNat}"
               | _ => none)
           | _ => none
         let o := match want with
           | some x => if ob.ret != x then o.flag "C03" s!"@{k} {op}: got {ob.ret}, the decoded tree says {x}" else o
           | none => o
         if op == "gn" && it.name.isNone then (o, { po with cursor := none }) else (o, po)
       | none => if op == "gn" then stop else (o, po))
    | _, _ => stop

/-- C09, writer side, judged on the implementation's own answers and independent of the C04 bookkeeping:
    while the error flag is latched (no init / successful reset in between) the destination does not change. -/
def writerLatchOracle (o : OState) (k : Nat) (toks : List String) (impl : String) : OState :=
  let wo := o.ws.getD k {}
  let setWO (o : OState) (x : WOracle) : OState := { o with ws := o.ws.setIfInBounds k x }
  let parts := impl.splitOn " "
  let errOf : Option Bool := match parts with
    | _ :: e :: _ => if e.startsWith "e" then some ((dropPrefix e 1).toNat! != 0) else none
    | _ => none
  match toks with
  | ["dump"] =>
    let o := match wo.lastDump with
      | some d =>
        let o := { o with nLatchJudged := o.nLatchJudged + 1 }
        if wo.errNow && d != impl then
          (o.flag "C09" s!"@{k} the writer stored bytes while its error flag was latched: destination {d} became {impl}").flag
            "C04" s!"@{k} after the first piece that did not fit (or another error) the destination was modified again: {d} became {impl}" else o
      | none => o
    setWO o { wo with lastDump := if wo.errNow then some impl else none }
  | _ =>
    match errOf with
    | some e =>
      -- init and a successful reset clear the latch legitimately
      let cleared := (toks.headD "" == "W") || (toks.headD "" == "wx" && parts.headD "" == "1")
      let isWrite := !["W", "wx", "wc", "wv", "dump"].contains (toks.headD "")
      -- C09: after the first failing write every later write returns false
      let o := if isWrite && wo.failSeen && parts.headD "" == "1" then
          o.flag "C09" s!"@{k} {toks}: a write returned true although an earlier write of this sequence had failed" else o
      -- C12: a writer after init behaves like a fresh one: true, counter 0, no error
      let o := if toks.headD "" == "W" && toks.getD 1 "" != "NULL" && impl != "1 e0 c0" then
          o.flag "C12" s!"@{k} binson_writer_init on a non-NULL destination must return true with counter 0 and no error: {impl}" else o
      let wo := { wo with failSeen := (if cleared then false else wo.failSeen || (isWrite && parts.headD "" == "0")) }
      let (le, lc) := match parts with | _ :: e' :: c' :: _ => (e', c') | _ => (wo.lastE, wo.lastC)
      setWO o { wo with errNow := e, lastDump := (if cleared || !e then none else wo.lastDump), lastE := le, lastC := lc,
                        resetSeen := (if toks.headD "" == "W" then false else wo.resetSeen || (toks.headD "" == "wx" && parts.headD "" == "1")) }
    | none => o

def writerOracle (o : OState) (k : Nat) (toks : List String) (impl : String) : OState :=
  let o := writerLatchOracle o k toks impl
  let wo := o.ws.getD k {}
  let setWO (o : OState) (x : WOracle) : OState := { o with ws := o.ws.setIfInBounds k x }
  let parts := impl.splitOn " "
  let opOf : Option WOp := match toks with
    | ["wob"] => some .objBegin | ["woe"] => some .objEnd | ["wab"] => some .arrBegin | ["wae"] => some .arrEnd
    | ["wb", b] => some (.bool (b != "0")) | ["wi", v] => some (.int v.toInt!) | ["wd", b] => some (.dbl b.toNat!)
    | ["ws", hx] => some (.str (parseHex hx).toList) | ["wn", hx] => some (.str (parseHex hx).toList)
    | ["wy", hx] => some (.bytes (parseHex hx).toList) | ["wr", hx] => some (.raw (parseHex hx).toList)
    | ["ws", hx, "N"] => some (.str (parseHex hx).toList) | ["wn", hx, "N"] => some (.str (parseHex hx).toList)
    | ["wy", hx, "N"] => some (.bytes (parseHex hx).toList)
    | ["wrA", off, len] =>
      if impl == "skip" then none else
      let pre := fitted wo.cap 0 wo.pieces.reverse
      let img := pre ++ wo.base.toList.drop pre.length
      some (.raw ((img.drop off.toNat!).take len.toNat!))
    | _ => none
  match toks with
  | ["W", cap] =>
    let isNull := cap == "NULL"
    -- C12: init on a NULL destination is refused and leaves nothing of an earlier use behind: false, ERROR_NULL, counter 0
    let o := if isNull && impl != "0 e5 c0" then
        o.flag "C12" s!"@{k} binson_writer_init(w, NULL, n) must return false with ERROR_NULL and counter 0 whatever the object held before: {impl}" else o
    setWO o { cap := if isNull then 0 else cap.toNat!, isNull := isNull, broken := isNull,
              base := pattern (if isNull then 0 else cap.toNat!) }
  | ["wnN"] | ["wrN", _] | ["wrH"] => setWO o { wo with broken := true }
  | ["wx"] =>
    -- C12: a reset that returned true leaves a writer that is like a fresh one: counter 0, no error
    let o := (match parts with
      | r :: e :: c :: _ => if r == "1" && (e != "e0" || c != "c0") then o.flag "C12" s!"@{k} binson_writer_reset returned true but the writer is not like a fresh one: {impl}" else o
      | _ => o)
    (match parts with
     | r :: _ =>
       if r == "1" then
         let pre := fitted wo.cap 0 wo.pieces.reverse
         setWO o { wo with pieces := [], total := 0, toks := [], base := (pre ++ wo.base.toList.drop pre.length).toArray }
       else setWO o { wo with broken := true }
     | _ => o)
  | ["dump"] =>
    if wo.broken then o else
    let o := { o with nWriterJudged := o.nWriterJudged + 1 }
    let pre := fitted wo.cap 0 wo.pieces.reverse
    let want := (pre ++ wo.base.toList.drop pre.length).toArray
    if impl != "m" ++ memOut want then
      (o.flag "C04" s!"@{k} destination is not prefix-of-encoding + untouched: got {impl} want m{memOut want}").flag
        "C05" s!"@{k} the bytes produced are not the canonical encoding of the values written so far (integers and lengths in shortest form, doubles as their 8 IEEE-754 bytes, text and bytes verbatim): got {impl} want m{memOut want}" else o
  | ["wv"] =>
    if wo.broken || impl == "skip" then o else
    -- C05: a well-formed sequence must be accepted by writer_verify (object nesting <= 10)
    (match buildValue wo.toks.reverse with
     | some (v, []) =>
       if wfDoc .object 10 v && wo.total ≤ wo.cap then
         (match parts with
          | r :: _ => if r != "1" then o.flag "C05" s!"@{k} writer_verify rejected a well-formed sequence" else o
          | _ => o)
       else o
     | _ => o)
  | _ =>
    match opOf with
    | none => o
    | some op =>
      -- a NULL destination (size-only run): nothing can be stored, but the counter keeps counting (C09)
      if wo.isNull then
        let ps := specPieces op
        let wo := { wo with total := wo.total + (ps.map List.length).sum }
        let o := setWO o wo
        (match parts with
         | _ :: _ :: c :: _ => if (dropPrefix c 1).toNat! != wo.total then
               o.flag "C09" s!"@{k} size-only run on a NULL destination: the counter is {c} after {toks}, the exact encoded size so far is {wo.total}" else o
         | _ => o)
      else
      if wo.broken then o else
      let ps := specPieces op
      let wo := { wo with pieces := ps.reverse ++ wo.pieces, total := wo.total + (ps.map List.length).sum, toks := op :: wo.toks }
      let o := setWO o wo
      let o := { o with nWriterJudged := o.nWriterJudged + 1 }
      (match parts with
       | r :: e :: c :: _ =>
         let cN := (dropPrefix c 1).toNat!
         let eN := (dropPrefix e 1).toNat!
         let o := if cN != wo.total then o.flag "C04" s!"@{k} counter {cN} after {toks}, exact encoded size {wo.total}" else o
         -- C09: "the counter keeps counting" after the first failing write
         let o := if cN != wo.total && wo.errNow then o.flag "C09" s!"@{k} the counter stopped counting after an error: {cN} after {toks}, exact encoded size {wo.total}" else o
         let o := if (eN == 1) != (wo.total > wo.cap) then o.flag "C04" s!"@{k} error {eN} but size {wo.total} vs capacity {wo.cap}" else o
         -- C12: after a reset that returned true the writer behaves like a fresh one over the same destination
         let o := if wo.resetSeen && (cN != wo.total || (eN == 1) != (wo.total > wo.cap)) then
             o.flag "C12" s!"@{k} after a reset that returned true the writer does not behave like a fresh one: counter {cN} error {eN}, a fresh writer would have counter {wo.total} and RANGE iff {wo.total} > {wo.cap}" else o
         let o := if (r == "1") != (wo.total ≤ wo.cap) then o.flag "C09" s!"@{k} write returned {r} with size {wo.total} vs capacity {wo.cap}" else o
         -- C05: when the root object has just been closed, the bytes are encode(v)
         (match op with
          | .objEnd =>
            (match buildValue wo.toks.reverse with
             | some (v, []) =>
               if wfValue v then
                 let enc := encode v
                 let got := (wo.pieces.reverse).foldl (· ++ ·) []
                 if enc != got then o.flag "C05" s!"@{k} spec pieces differ from encode of the tree (oracle self-check)" else o
               else o
             | _ => o)
          | _ => o)
       | _ => o)

/-- C15: the C++ class against encode / sortKeys / decodeDoc at depth 10 -/
def cppOracle (o : OState) (op : String) (toks : List String) (impl : String) : OState :=
  let o := { o with nWriterJudged := o.nWriterJudged + 1 }
  let parts := impl.splitOn " "
  if op == "xs" || op.startsWith "xr" then
    match parseTreeValue (toks.drop 1) with
    | some (v, _) =>
      let c := sortKeys v
      if !wfValue c then o else
      let enc := hexL (encode c)
      if op == "xs" then
        (if impl != s!"ok {enc}" then o.flag "C15" s!"serialize() is not the canonical encoding of the tree with keys sorted: got {impl} want ok {enc}" else o)
      else if fits 10 255 c then
        (if impl != s!"ok {enc} {enc}" then o.flag "C15" s!"deserialize(serialize(x)) != x or not canonical: got {impl} want ok {enc} {enc}" else o)
      else
        (if parts.headD "" != "exc" then o.flag "C15" s!"object nesting beyond 10 must be rejected with an exception (verify at depth 10 rejects), got {impl}" else o)
    | none => o
  else if op.startsWith "xd" then
    match toks with
    | [_, _, hx] =>
      let bytes := parseHex hx
      (match decodeDoc .object 10 bytes.toList with
       | some _ => if impl != s!"ok {hexOf bytes}" then o.flag "C15" s!"valid document: serialize(deserialize(bytes)) must equal bytes, got {impl}" else o
       | none => if parts.headD "" != "exc" then o.flag "C15" s!"verify at depth 10 rejects these bytes, so deserialize must throw; got {impl}" else o)
    | _ => o
  else o

/-- one op through all oracles -/
def oracleStep (o : OState) (toks : List String) (impl : String) : OState :=
  let (k, toks) := match toks with
    | t :: r => if t.startsWith "@" then ((dropPrefix t 1).toNat! % 4, r) else (0, toks)
    | [] => (0, [])
  let op := toks.headD ""
  let o := { o with nOps := o.nOps + 1, opHist := bump o.opHist op }
  let po := o.ps.getD k {}
  let setPO (o : OState) (x : POracle) : OState := { o with ps := o.ps.setIfInBounds k x }
  -- C12: a callback installed by print / to_string must not outlive the call
  let o := if (impl.splitOn " CBLEFT").length > 1 then
      (o.flag "C12" s!"@{k} {op}: the internal print/to_string callback is still installed on the parser object after the call returned; every later call on this object (after reset, on any document) invokes it with a dangling context").flag
        "C01" s!"@{k} {op}: the internal print/to_string callback is still installed after the call returned: later calls run it on a dead stack frame and write through its stale destination pointer"
    else o
  -- C11: parser_to_writer on anything that is not an un-entered container returns false and changes nothing - the writer included
  let o := if op == "p2w" then
      (match impl.splitOn " | " with
       | [pp, wp] =>
         let wo := o.ws.getD k {}
         let wparts := wp.splitOn " "
         -- refused = get_raw refused: the parser did not move (a container that was extracted but did not fit the writer is a RANGE error, not a refusal)
         let o := if pp.startsWith "0" && (parseObs pp).used == po.lastUsed && (parseObs pp).err == po.lastErr then
             (match wparts with
              | _ :: e :: c :: _ => if e != wo.lastE || c != wo.lastC then
                    o.flag "C11" s!"@{k} parser_to_writer was refused but changed the writer: error/counter {wo.lastE}/{wo.lastC} became {e}/{c}" else o
              | _ => o)
           else o
         let movedBy := (parseObs pp).used - po.lastUsed
         -- (only where the protocol allows the call: the reference cursor stands on an un-entered container)
         let onContainer := match po.cursor with
           | some c => c.allowed .raw && (match c.cur with | some n => n.item.ty == .object || n.item.ty == .array | none => false)
           | none => false
         let o := if onContainer && pp.startsWith "0" && (parseObs pp).err == 0 && movedBy > 0 && wo.lastE == "e0" then
             (match wparts with
              | _ :: e :: c :: _ =>
                if (e != "e0" && e != "e1") || (dropPrefix c 1).toNat! != (dropPrefix wo.lastC 1).toNat! + movedBy then
                  o.flag "C11" s!"@{k} parser_to_writer extracted a container of {movedBy} bytes but did not hand exactly those bytes to the writer: writer {wo.lastE}/{wo.lastC} became {e}/{c}" else o
              | _ => o)
           else o
         let o := if pp.startsWith "1" then
             (match wparts with
              | _ :: e :: c :: _ =>
                let delta := (parseObs pp).used - po.lastUsed
                if wo.lastE == "e0" && (e != "e0" || (dropPrefix c 1).toNat! != (dropPrefix wo.lastC 1).toNat! + delta) then
                  o.flag "C11" s!"@{k} parser_to_writer returned true but did not append exactly the {delta} bytes of the container: writer {wo.lastE}/{wo.lastC} became {e}/{c}" else o
              | _ => o)
           else o
         (match wparts with
          | _ :: e :: c :: _ => { o with ws := o.ws.setIfInBounds k { wo with lastE := e, lastC := c, errNow := e != "e0" } }
          | _ => o)
       | _ => o)
    else o
  -- C12 regions
  let o := match toks with
    | ["M", "a0"] => { o with region := 1, regionA := [] }
    | ["M", "a1"] => { o with region := 0 }
    | ["M", "b0"] => { o with region := 2, regionB := [] }
    | ["M", "b1"] =>
      let o := { o with region := 0, nReuseJudged := o.nReuseJudged + 1 }
      if o.regionA != o.regionB then
        let firstDiff := (o.regionA.reverse.zip o.regionB.reverse).find? fun (a, b) => a != b
        o.flag "C12" s!"reused object behaves differently from a fresh one: {firstDiff}"
      else o
    | _ => if o.region == 1 then { o with regionA := impl :: o.regionA } else if o.region == 2 then { o with regionB := impl :: o.regionB } else o
  if op == "M" then o else
  if op.startsWith "x" then cppOracle o op toks impl else
  if op == "C" then { o with ps := #[{}, {}, {}, {}], ws := #[{}, {}, {}, {}], nCases := o.nCases + 1, region := 0 } else
  if ["W", "wx", "wob", "woe", "wab", "wae", "wb", "wi", "wd", "ws", "wn", "wy", "wr", "wc", "wv", "dump", "wnN", "wrN", "wrA", "wrH"].contains op then
    writerOracle o k toks impl else
  if op == "P" then
    setPO o { md := (toks.getD 1 "0").toNat! } else
  if op == "B" then
    (if impl == "B ok" then
      let doc := parseHex (toks.getD 1 "-")
      setPO o { po with doc := doc, value := decodeDoc po.root po.md doc.toList, cursor := none }
     else o) else
  if op == "tr" then
    -- C10: transcription reproduces the input byte for byte
    (match po.value, toks, impl.splitOn " " with
     | some _, _ :: cap :: _, r :: _ :: _ :: c :: m :: _ =>
       let capN := cap.toNat!
       let n := po.doc.size
       let o := { o with nWriterJudged := o.nWriterJudged + 1 }
       let o := if r != "1" then o.flag "C10" s!"transcription of a valid document failed ({impl})" else o
       let o := if (dropPrefix c 1).toNat! != n then o.flag "C10" s!"transcription size {c} differs from input size {n}" else o
       if capN ≥ n then
         let want := (po.doc.toList ++ List.replicate (capN - n) 0xAA).toArray
         if dropPrefix m 1 != memOut want then o.flag "C10" s!"transcribed bytes differ from the input: got {m}" else o
       else o
     | _, _, _ => o) |> fun o => setPO o { po with cursor := none, latched := 0 } else
  if op == "ts" || op == "pr" || op == "tsH" then
    let o := textOracle o po toks impl
    -- C09: print / to_string that fail because the document is malformed leave the error set: one check after the call detects it
    let o := if op != "tsH" && po.inited && po.value.isNone && impl.startsWith "0 " &&
        ((impl.splitOn " ").any fun t => t == "e0") then
        o.flag "C09" s!"@{k} {op} failed on bytes that are not a well-formed document, yet the error indicator is clear after the call: the failure cannot be detected by a check at the end ({impl.take 80})"
      else o
    let u := match (impl.splitOn " ").getLast? with
      | some t => if t.startsWith "u" then (dropPrefix t 1).toNat! else po.lastUsed
      | none => po.lastUsed
    setPO o { po with cursor := (po.value.map fun v => Cursor.start po.root v), latched := 0, nest := 0, lastUsed := u, pendingCont := false } else
  let ob := parseObs (match impl.splitOn " | " with | a :: _ => a | [] => impl)
  if !ob.ok then o else
  let o := { o with errHist := o.errHist.modify ob.err (· + 1) }
  -- C01: spans inside the buffer
  let o := { o with nSpanJudged := o.nSpanJudged + 1 }
  let o := if po.inited || op == "I" then
      (let size := if op == "I" then (parseHex (toks.getD 2 "-")).size else po.doc.size
       if !spansInside size impl then o.flag "C01" s!"@{k} {op}: a span outside the {size}-byte buffer: {impl}" else o)
    else o
  if op == "I" then
    let doc := parseHex (toks.getD 2 "-")
    let root : Root := if toks.getD 1 "o" == "a" then .array else .object
    let v := decodeDoc root po.md doc.toList
    let o := if v.isSome then { o with nDocsValid := o.nDocsValid + 1 } else { o with nDocsInvalid := o.nDocsInvalid + 1 }
    -- a valid document must be accepted by init
    let o := if v.isSome && ob.ret != "1" then o.flag "C02" s!"@{k} init rejected a well-formed document" else o
    setPO o { doc := doc, md := po.md, root := root, value := v, inited := true,
              cursor := (if ob.ret == "1" then v.map (Cursor.start root) else none), latched := ob.err, lastErr := ob.err, lastUsed := ob.used }
  else
  -- C16: rendering one bytes value of 4n bytes must not cost more than ~4x that of n bytes (CPU time class measured by the harness)
  let o := if op == "tq" && impl != "lin" then o.flag "C16" s!"@{k} to_string is not linear in the size of a bytes value: {impl}" else o
  -- C12: after a successful verify (or reset) the object looks like a freshly initialised one: cursor 0, no current item
  let o := if (op == "v" || op == "r") && ob.ret == "1" && (ob.used != 0 || ob.ty != 0 || ob.name != "-" || ob.val != "_") then
      o.flag "C12" s!"@{k} {op} returned true but the parser is not at the start like a fresh one: cursor {ob.used}, current type {ob.ty}, name {ob.name}, value {ob.val}"
    else o
  -- C09: the error latch
  let resetting := op == "r" || op == "v"
  let o := if po.latched != 0 && !resetting then
      (let o := { o with nLatchJudged := o.nLatchJudged + 1 }
       let o := if ob.err != po.latched then o.flag "C09" s!"@{k} {op}: error indicator changed from {po.latched} to {ob.err} without reset/init/verify" else o
       let o := if isAdvancing op && !(ob.ret.startsWith "0") then o.flag "C09" s!"@{k} {op}: advancing call returned {ob.ret} while the error {po.latched} is set" else o
       let neutral := ["T0", "SNULL", "YNULL", "NNULL", "I0", "B0", "G0", "E0"]
       if ["gt", "gs", "gy", "gn", "gi", "gb", "gd", "se"].contains op && !neutral.contains ob.ret then
         o.flag "C09" s!"@{k} {op}: getter returned {ob.ret} while the error {po.latched} is set" else o)
    else o
  -- C09: get_raw on a container that next/lookup has just returned fails only by raising an error
  let o := if op == "gr" && po.pendingCont && po.latched == 0 && ob.ret.startsWith "0" && ob.err == 0 then
      o.flag "C09" s!"@{k} get_raw failed on the container that the previous call returned, yet no error is set after the call: the failure cannot be detected by a check at the end"
    else o
  -- C16: callbacks (tokens processed) bounded by the bytes moved over
  -- (profile anyL issues lookups with an array on top, outside the documented use: there a lookup re-announces every
  --  container element it parks on, and the bound that holds - and is proved for every state, `c16_field_cost` - is
  --  tokens <= 2 * bytes advanced over + 2; the factor-1 bound is judged for the documented use, as before)
  let anyLookup := o.profile == "anyL" && ["f", "fz", "F", "Fz"].contains op
  let o := if isAdvancing op || op == "v" then
      (let o := { o with nCostJudged := o.nCostJudged + 1 }
       let bound := if anyLookup then 2 * po.doc.size + 2 else po.doc.size + 1
       let o := if ob.ncb > bound then o.flag "C16" s!"@{k} {op}: {ob.ncb} tokens processed for a {po.doc.size}-byte buffer" else o
       -- per call: tokens processed <= bytes the cursor advanced over + a small constant (verify restarts at 0)
       if op != "v" && ob.ncb > (if anyLookup then 2 * (ob.used - po.lastUsed) + 2 else (ob.used - po.lastUsed) + 2) then
         o.flag "C16" s!"@{k} {op}: {ob.ncb} tokens processed while the cursor moved from {po.lastUsed} to {ob.used}"
       else o)
    else o
  -- C02: verify verdict and depth code
  let o := if op == "v" && po.inited then
      (let o := { o with nVerifyJudged := o.nVerifyJudged + 1 }
       let want := po.value.isSome
       let o := if (ob.ret == "1") != want then o.flag "C02" s!"@{k} verify returned {ob.ret}; the bytes are {if want then "" else "not "}a well-formed document at max_depth {po.md}" else o
       -- C12: the verdict does not depend on what the object was used for since init
       let o := if (ob.ret == "1") != want && (po.lastUsed != 0 || po.lastErr != 0) then
           o.flag "C12" s!"@{k} verify returned {ob.ret} on a parser that had been used (cursor {po.lastUsed}, error {po.lastErr}); a fresh parser on the same bytes at max_depth {po.md} {if want then "accepts" else "rejects"}" else o
       -- C05: what a well-formed write sequence produced is accepted by binson_parser_verify
       let o := if o.profile == "rt" && want && ob.ret != "1" then
           o.flag "C05" s!"@{k} binson_parser_verify rejected the canonical output of a well-formed write sequence" else o
       -- C09: a verify that fails leaves its error set
       let o := if ob.ret == "0" && ob.err == 0 && !want then
           o.flag "C09" s!"@{k} verify failed on bytes that are not a well-formed document, yet the error indicator is clear after the call" else o
       -- nesting as the first obstacle: the matching error code
       match decodeRef po.doc.toList with
       | some v =>
         if wfValue v && rootKindOk po.root v && !want then
           let ob' := firstObstacle (match po.root with | .object => po.md | .array => po.md - 1) 255 v
           (match ob' with
            | some true => if ob.err != 8 then o.flag "C02" s!"@{k} verify: nesting is the first obstacle, expected MAX_DEPTH_OBJECT, error is {ob.err}" else o
            | some false => if ob.err != 9 then o.flag "C02" s!"@{k} verify: nesting is the first obstacle, expected MAX_DEPTH_ARRAY, error is {ob.err}" else o
            | none => o)
         else o
       | none => o)
    else o
  -- C08: complete protocol-following traversal vs verify (stream profile: `@0 ... gt`, then `@1 v`)
  let po := if ["io", "ia"].contains op then
      (if ob.ret == "1" then { po with nest := po.nest + 1, everEntered := true, travOps := po.travOps + 1 } else { po with travFail := true })
    else if ["lo", "la"].contains op then
      (if ob.ret == "1" then { po with nest := po.nest - 1, travOps := po.travOps + 1 } else { po with travFail := true })
    else if op == "gr" || op == "p2w" then (if ob.ret.startsWith "1" then po else { po with travFail := true })
    else if resetting then { po with nest := 0, everEntered := false, travFail := false }
    else po
  let po := { po with lastErr := ob.err, lastUsed := ob.used }
  let o := if op == "v" && k == 1 && o.profile == "stream" then
      (let p0 := o.ps.getD 0 {}
       if p0.inited && p0.doc == po.doc && (p0.everEntered || p0.lastErr != 0 || p0.travFail) then
         let complete := (p0.everEntered && p0.nest == 0) || p0.travFail || p0.lastErr != 0
         if complete then
           let trav := p0.everEntered && p0.nest == 0 && !p0.travFail && p0.lastErr == 0
           let o := { o with nStreamJudged := o.nStreamJudged + 1 }
           if trav != (ob.ret == "1") then
             o.flag "C08" s!"complete traversal verdict {trav} (nest {p0.nest} fail {p0.travFail} err {p0.lastErr}) but verify on a fresh parser returned {ob.ret}"
           else o
         else o
       else o)
    else o
  -- the reference cursor (C03, C06, C07, C11)
  let (o, po) := if resetting then
      (o, { po with cursor := (if ob.ret == "1" then po.value.map (Cursor.start po.root) else none) })
    else if op == "N" || op == "p2w" then (o, { po with cursor := none })
    else cursorOracle o k po op toks ob
  let po := { po with latched := if resetting then ob.err else (if po.latched != 0 then po.latched else ob.err) }
  let po := { po with pendingCont :=
    if ["n", "N", "f", "fz", "F", "Fz"].contains op then (ob.ret == "1" && ob.err == 0 && (ob.ty == 1 || ob.ty == 3))
    else if ["gt", "gD", "gs", "gy", "gn", "gi", "gb", "gd", "se"].contains op then po.pendingCont else false }
  setPO o po

/-! ## main -/

def splitToks (line : String) : List String := (line.trimAscii.toString.splitOn " ").filter (· != "")

def jsonStr (s : String) : String := "\"" ++ (s.replace "\\" "\\\\").replace "\"" "\\\"" ++ "\""

def runModel (ops : Array String) : IO Unit := do
  let out ← IO.getStdout
  let mut w : World := {}
  for line in ops do
    let toks := splitToks line
    if toks.isEmpty then continue
    let (w', s) := execModel w toks ""
    w := w'
    out.putStrLn s

def runCheck (profile : String) (ops impl : Array String) (maxReport : Nat) : IO UInt32 := do
  let out ← IO.getStdout
  let mut w : World := {}
  let mut o : OState := { profile := profile }
  let mut caseId := "-"
  let mut caseBad := false      -- model and implementation already diverged in this case
  let mut nMis := 0
  let mut nOra := 0
  let mut nCompared := 0
  let mut i := 0
  let mut lineNo := 0
  for line in ops do
    lineNo := lineNo + 1
    let toks := splitToks line
    if toks.isEmpty then continue
    let implLine := if i < impl.size then impl[i]! else "<missing: implementation produced no line (crash?)>"
    i := i + 1
    if toks.headD "" == "C" then
      caseId := toks.getD 1 "-"
      caseBad := false
    let (w', s) := execModel w toks implLine
    w := w'
    nCompared := nCompared + 1
    -- a case run with no callback installed reports "c-" for the token count: the model's count is masked for the comparison
    let s := if (implLine.splitOn " ").contains "c-" then
        (match s.splitOn " | " with
         | a :: rest => " | ".intercalate ((" ".intercalate ((a.splitOn " ").map fun t => if t.startsWith "c" && t.length > 1 && (t.drop 1).toString.all Char.isDigit then "c-" else t)) :: rest)
         | [] => s)
      else s
    if !caseBad && s != implLine then
      caseBad := true
      nMis := nMis + 1
      if nMis ≤ maxReport then
        out.putStrLn s!"MISMATCH case={caseId} line={lineNo} op={jsonStr line} model={jsonStr s} impl={jsonStr implLine}"
    let nv := o.viol.length
    if i ≤ impl.size then
      o := oracleStep o toks implLine
    if o.viol.length > nv then
      for v in (o.viol.take (o.viol.length - nv)).reverse do
        nOra := nOra + 1
        if nOra ≤ maxReport then
          out.putStrLn s!"ORACLE case={caseId} line={lineNo} op={jsonStr line} {v}"
  let opHist := ", ".intercalate (o.opHist.map fun (k, n) => s!"{jsonStr k}: {n}")
  let errHist := ", ".intercalate (o.errHist.toList.map toString)
  out.putStrLn ("STATS {" ++ s!"\"compared\": {nCompared}, \"mismatches\": {nMis}, \"oracle_violations\": {nOra}, \"cases\": {o.nCases}, " ++
    s!"\"docs_valid\": {o.nDocsValid}, \"docs_invalid\": {o.nDocsInvalid}, \"judged_cursor\": {o.nCursorJudged}, \"judged_verify\": {o.nVerifyJudged}, " ++
    s!"\"judged_text\": {o.nTextJudged}, \"judged_writer\": {o.nWriterJudged}, \"judged_stream\": {o.nStreamJudged}, \"judged_latch\": {o.nLatchJudged}, " ++
    s!"\"judged_reuse\": {o.nReuseJudged}, \"judged_spans\": {o.nSpanJudged}, \"judged_cost\": {o.nCostJudged}, \"impl_lines\": {impl.size}, " ++
    s!"\"err_hist\": [{errHist}], \"op_hist\": " ++ "{" ++ opHist ++ "}}")
  return (if nMis == 0 && nOra == 0 && impl.size ≥ i then 0 else 1)

def main (args : List String) : IO UInt32 := do
  match args with
  | ["model", opsF] =>
    runModel (← IO.FS.lines opsF)
    return 0
  | ["check", prof, opsF, implF] =>
    runCheck prof (← IO.FS.lines opsF) (← IO.FS.lines implF) 20
  | ["check", prof, opsF, implF, n] =>
    runCheck prof (← IO.FS.lines opsF) (← IO.FS.lines implF) n.toNat!
  | _ =>
    IO.eprintln "usage: driver model <ops> | driver check <profile> <ops> <impl> [max-report]"
    return 2
