/-
  Layer 3, part 6: `binson_parser_verify` accepts the canonical encoding of every well-formed
  document that fits the depth configuration, and its callback log is exactly `viewsOf 0 v`.
-/
import Binson.Lemmas.PassRoot
import Binson.Lemmas.Safe
namespace Binson

mutual
theorem tokens_le : ∀ v, tokens v ≤ (encode v).length
  | .bool _ => by simp [tokens, encode]
  | .int _ => by simp [tokens, encode, encInt]
  | .dbl _ => by simp [tokens, encode]
  | .str _ => by simp [tokens, encode, encStr, encInt]
  | .bytes _ => by simp [tokens, encode, encStr, encInt]
  | .arr xs => by have := tokensE_le xs; simp [tokens, encode]; omega
  | .obj fs => by have := tokensF_le fs; simp [tokens, encode]; omega
theorem tokensE_le : ∀ xs, tokensE xs ≤ (encElems xs).length
  | .nil => by simp [tokensE, encElems]
  | .cons v r => by have := tokens_le v; have := tokensE_le r; simp [tokensE, encElems]; omega
theorem tokensF_le : ∀ fs, tokensF fs ≤ (encFields fs).length
  | .nil => by simp [tokensF, encFields]
  | .cons n v r => by have := tokens_le v; have := tokensF_le r; simp [tokensF, encFields, encStr, encInt]; omega
end

/-- an accepted `reset`, in closed form -/
theorem reset_accept (p : Parser) (hmd : p.maxDepth ≠ 0) (h2 : 2 ≤ p.size) (hbs : p.buf.size = p.size)
    (t : Nat) (b0 bl : UInt8) (hpt : p.ptype = t)
    (ht : (t = 1 ∧ b0 = 0x40 ∧ bl = 0x41) ∨ (t = 2 ∧ b0 = 0x42 ∧ bl = 0x43))
    (hb0 : p.byte 0 = b0) (hbl : p.byte (p.size - 1) = bl) :
    reset p = (wipe { p with depth := 0, used := 0, cur := 0 } (t - 1), true) := by
  unfold reset
  rw [if_neg hmd]
  simp only
  rw [if_neg (by omega)]
  have t1 : ∀ (x : Parser), x.buf = p.buf → (x.touchBuf 0 1).touchBuf (p.size - 1) 1 = x := by
    intro x hx
    have e1 : x.touchBuf 0 1 = x := touchBuf_of_le (by rw [hx, hbs]; omega)
    rw [e1]; exact touchBuf_of_le (by rw [hx, hbs]; omega)
  rw [t1 ({ p with depth := 0, used := 0, cur := 0 }) rfl]
  have hby0 : ({ p with depth := 0, used := 0, cur := 0 } : Parser).byte 0 = b0 := hb0
  have hbyl : ({ p with depth := 0, used := 0, cur := 0 } : Parser).byte (p.size - 1) = bl := hbl
  rcases ht with ⟨rfl, rfl, rfl⟩ | ⟨rfl, rfl, rfl⟩
  · rw [if_pos hpt]; simp only [hby0, hbyl]; simp
  · rw [if_neg (by rw [show ({ p with depth := 0, used := 0, cur := 0 } : Parser).ptype = p.ptype from rfl, hpt]; decide), if_pos hpt]
    simp only [hby0, hbyl]; simp

end Binson

namespace Binson

theorem toArray_getD_head (a d : UInt8) (m : List UInt8) : (a :: m).toArray.getD 0 d = a := by
  simp [Array.getD_eq_getD_getElem?]

theorem toArray_getD_last (a b d : UInt8) (m : List UInt8) :
    (a :: (m ++ [b])).toArray.getD ((a :: (m ++ [b])).length - 1) d = b := by
  simp [Array.getD_eq_getD_getElem?]

/-- the parser right after an accepted init/reset over `buf` (`t` = 1 object root, 2 array root) -/
structure Fresh (W : Parser) (buf : Array UInt8) (t : Nat) (md : Nat) : Prop where
  shape : Shape W
  err : W.err = .none
  depth : W.depth = t - 1
  used : W.used = 0
  buf : W.buf = buf
  ptype : W.ptype = t
  maxDepth : W.maxDepth = md
  zeros : ∀ i, W.getLvl i = Level.zero

theorem wipe_fresh (p : Parser) (hs : Shape (wipe { p with depth := 0, used := 0, cur := 0 } d)) (hd : d = p.ptype - 1) :
    Fresh (wipe { p with depth := 0, used := 0, cur := 0 } d) p.buf p.ptype p.maxDepth :=
  ⟨hs, rfl, hd, rfl, rfl, rfl, rfl, fun i => getLvl_of_replicate _ p.levels.size rfl i⟩

/-- init over a buffer with the right first/last byte is accepted and gives a fresh parser -/
theorem init_fresh (g : Parser) (ha : Alloc g) (buf : Array UInt8) (t : Nat) (b0 bl : UInt8)
    (ht : (t = 1 ∧ b0 = 0x40 ∧ bl = 0x41) ∨ (t = 2 ∧ b0 = 0x42 ∧ bl = 0x43))
    (h2 : 2 ≤ buf.size) (hsz : buf.size < 2 ^ 63) (hb0 : buf.getD 0 0 = b0) (hbl : buf.getD (buf.size - 1) 0 = bl) :
    (init g buf t).2 = true ∧ Fresh (init g buf t).1 buf t g.maxDepth := by
  have htt : t = 1 ∨ t = 2 := by rcases ht with ⟨h, _⟩ | ⟨h, _⟩ <;> simp [h]
  have hsh := init_shape g ha buf t htt hsz
  have hmd : g.maxDepth ≠ 0 := by have := ha.hmd; omega
  unfold init at hsh ⊢
  rw [if_neg hmd] at hsh ⊢
  have hr := reset_accept { g with buf := buf, size := buf.size, err := .none, ptype := t } hmd h2 rfl t b0 bl rfl ht hb0 hbl
  rw [hr] at hsh ⊢
  exact ⟨rfl, wipe_fresh _ hsh rfl⟩

/-- any shaped parser over `buf` resets to a fresh one -/
theorem reset_to_fresh {W : Parser} {buf : Array UInt8} {t md : Nat} (hsW : Shape W) (hbuf : W.buf = buf) (hpt : W.ptype = t)
    (hmdW : W.maxDepth = md) (b0 bl : UInt8)
    (ht : (t = 1 ∧ b0 = 0x40 ∧ bl = 0x41) ∨ (t = 2 ∧ b0 = 0x42 ∧ bl = 0x43))
    (h2 : 2 ≤ buf.size) (hb0 : buf.getD 0 0 = b0) (hbl : buf.getD (buf.size - 1) 0 = bl) :
    (reset W).2 = true ∧ Fresh (reset W).1 buf t md := by
  have hsh := reset_shape W hsW
  have hmd : W.maxDepth ≠ 0 := by have := hsW.hmd; omega
  have hsz : W.size = buf.size := by rw [← hsW.hbs, hbuf]
  have hr := reset_accept W hmd (by rw [hsz]; exact h2) hsW.hbs t b0 bl hpt ht
    (by unfold Parser.byte; rw [hbuf]; exact hb0) (by unfold Parser.byte; rw [hbuf, hsz]; exact hbl)
  rw [hr] at hsh ⊢
  have := wipe_fresh W hsh (by rw [hpt])
  refine ⟨rfl, ?_⟩
  exact ⟨this.shape, this.err, this.depth.trans (by rw [hpt]), this.used, this.buf.trans hbuf, this.ptype.trans hpt,
    this.maxDepth.trans hmdW, this.zeros⟩

theorem reset_fresh {W : Parser} {buf : Array UInt8} {t md : Nat} (hF : Fresh W buf t md) (b0 bl : UInt8)
    (ht : (t = 1 ∧ b0 = 0x40 ∧ bl = 0x41) ∨ (t = 2 ∧ b0 = 0x42 ∧ bl = 0x43))
    (h2 : 2 ≤ buf.size) (hb0 : buf.getD 0 0 = b0) (hbl : buf.getD (buf.size - 1) 0 = bl) :
    (reset W).2 = true ∧ Fresh (reset W).1 buf t md :=
  reset_to_fresh hF.shape hF.buf hF.ptype hF.maxDepth b0 bl ht h2 hb0 hbl

end Binson

namespace Binson

theorem advLoop_ret {f : Nat} {st st' : LoopSt} {sn : Option (List UInt8)} {oa od : Nat} {b : Bool}
    (h : iter st sn oa od = (st', .ret b)) : advLoop (f + 1) st sn oa od = (st', .done b) := by
  rw [advLoop, h]

/-- `_advance_parsing(VERIFY)` on a fresh parser over `encode (.obj fs)` -/
theorem advance_fresh_obj {W : Parser} {buf : Array UInt8} {md : Nat} (hF : Fresh W buf 1 md) (hmd : md ≤ 255)
    (fs : Fields) (hbuf : buf.toList = encode (.obj fs)) (hwf : wfFields none fs = true)
    (hfit : fits md 255 (.obj fs) = true) :
    (advance W .verify none).ret = false ∧ (advance W .verify none).p.err = .none ∧
    W.Frame (advance W .verify none).p ∧
    (advance W .verify none).ev.map (view buf) = viewsOf 0 (.obj fs) := by
  have hsh := hF.shape
  have hd0 : W.depth = 0 := hF.depth
  have hfit' : 1 ≤ md ∧ fitsF (md - 1) fs = true := by simpa [fits] using hfit
  have hrem : W.rem = 0x40 :: (encFields fs ++ [0x41]) := by
    unfold Parser.rem; rw [hF.used, hF.buf, List.drop_zero, hbuf]; simp [encode]
  have hsize : W.size = (encode (.obj fs)).length := by rw [← hsh.hbs, hF.buf, ← hbuf]; simp
  have htok := tokens_le (.obj fs)
  unfold advance
  rw [if_neg (by simp [hF.err])]
  simp only [touchLvl_of_lt hsh.cur_lt]
  have hoa : (W.getLvl W.cur).ad = 0 := by rw [hF.zeros]; rfl
  rw [hoa, hd0, hF.used]
  -- split the fuel
  have h3 : 2 + tokensF fs ≤ W.size := by
    have := tokens_le (.obj fs); simp only [tokens] at this; omega
  have hfuel : W.size - 0 + 2 = (tokensF fs + (1 + (W.size - tokensF fs))) + 1 := by omega
  rw [hfuel]
  -- root `{`
  obtain ⟨st1, i1, s1, e1, c1, u1, d1, f1, g1, v1⟩ := iter_root_objBegin (sn := none) (oa := 0) (od := 0)
    (st := ⟨W, some .verify, 0, []⟩) hsh hF.err rfl hd0 hF.zeros (by rw [hF.maxDepth]; exact hmd) _ hrem
  simp only at c1 u1 f1 v1
  have hi1 : st1.p.lvlIdx = 0 := by unfold Parser.lvlIdx; rw [d1]; rfl
  have hD1 : Deep st1 0 0 := by
    refine ⟨s1, e1, by rw [c1]; exact cont_verify, by rw [d1]; exact Nat.le_refl _, Or.inl (by rw [d1]; exact Nat.zero_lt_one), ?_, ?_,
      by rw [f1.2.2.1, hF.maxDepth]; exact hmd⟩
    · intro i hi; rw [d1] at hi; rw [g1]
      have : i ≠ 0 := by omega
      simp [this]
    · intro h; rw [f1.2.2.2.1, hF.ptype] at h; cases h
  have hr1 : st1.p.rem = encFields fs ++ [0x41] := rem_step hsh hrem f1 u1
  -- fields
  obtain ⟨st2, i2, r2, p2⟩ := pass_fields fs (1 + (W.size - tokensF fs)) st1 none 0 0 [0x41] hD1 hr1
    (by unfold prevName; rw [hi1, g1]; simpa [Level.zero] using hwf)
    (by rw [hi1, g1]; rfl) (by rw [hi1, g1]; rfl)
    (by rw [d1, f1.2.2.1, hF.maxDepth]; exact hfit'.2)
  have hD2 : Deep st2 0 0 := hD1.after p2.base p2.ad
  have hd2 : st2.p.depth = 1 := by rw [p2.base.depth, d1]
  have hf2 : (st2.p.getLvl 0).flags = .expField := by have := p2.flags; rw [hi1] at this; exact this
  -- root `}`
  obtain ⟨st3, i3, v3, e3, d3, f3⟩ := iter_root_objEnd (sn := none) (oa := 0) (od := 0) hD2.shape hD2.err
    (by rw [p2.base.moved.scan, c1]) hd2 hf2 (by decide) [] r2
  simp only [if_true] at e3
  rw [advLoop_cont i1, i2, show 1 + (W.size - tokensF fs) = (W.size - tokensF fs) + 1 by omega, advLoop_ret i3]
  simp only
  refine ⟨trivial, e3, (f1.trans p2.base.moved.frame).trans f3, ?_⟩
  -- the log
  obtain ⟨new, en, wn⟩ := p2.base.moved.ev
  rw [v3, en, v1]
  have hb1 : st1.p.buf = buf := by rw [f1.2.1, hF.buf]
  have hb2 : st2.p.buf = buf := by rw [p2.base.moved.frame.2.1, hb1]
  rw [hb1] at wn
  simp only [List.reverse_cons, List.reverse_append, List.reverse_nil, List.nil_append, List.map_append, List.map_cons, List.map_nil,
    List.append_assoc, wn]
  simp [viewsOf, view, Level.zero]

end Binson

namespace Binson

/-- `_advance_parsing(VERIFY)` on a fresh parser over `encode (.arr xs)` (array-rooted parser) -/
theorem advance_fresh_arr {W : Parser} {buf : Array UInt8} {md : Nat} (hF : Fresh W buf 2 md) (hmd : md ≤ 255)
    (xs : Elems) (hbuf : buf.toList = encode (.arr xs)) (hwf : wfElems xs = true)
    (hfit : fits (md - 1) 255 (.arr xs) = true) :
    (advance W .verify none).ret = false ∧ (advance W .verify none).p.err = .none ∧
    W.Frame (advance W .verify none).p ∧
    (advance W .verify none).ev.map (view buf) = viewsOf 0 (.arr xs) := by
  have hsh := hF.shape
  have hd1 : W.depth = 1 := hF.depth
  have hfit' : fitsE (md - 1) 254 xs = true := by simpa [fits] using hfit
  have hrem : W.rem = 0x42 :: (encElems xs ++ [0x43]) := by
    unfold Parser.rem; rw [hF.used, hF.buf, List.drop_zero, hbuf]; simp [encode]
  have hsize : W.size = (encode (.arr xs)).length := by rw [← hsh.hbs, hF.buf, ← hbuf]; simp
  have h3 : 2 + tokensE xs ≤ W.size := by
    have := tokens_le (.arr xs); simp only [tokens] at this; omega
  unfold advance
  rw [if_neg (by simp [hF.err])]
  simp only [touchLvl_of_lt hsh.cur_lt]
  have hoa : (W.getLvl W.cur).ad = 0 := by rw [hF.zeros]; rfl
  rw [hoa, hd1, hF.used]
  have hfuel : W.size - 0 + 2 = (tokensE xs + (1 + (W.size - tokensE xs))) + 1 := by omega
  rw [hfuel]
  -- root `[`
  obtain ⟨st1, i1, s1, e1, c1, u1, d1, f1, g1, v1⟩ := iter_root_arrBegin (sn := none) (oa := 0) (od := 1)
    (st := ⟨W, some .verify, 0, []⟩) hsh hF.err rfl hd1 hF.zeros _ hrem
  simp only at c1 u1 f1 v1
  have hi1 : st1.p.lvlIdx = 0 := by unfold Parser.lvlIdx; rw [d1]; rfl
  have hl1 : st1.p.getLvl st1.p.lvlIdx = arrInnerLevel Level.zero := by rw [hi1, g1]; simp
  have hD1 : Deep st1 0 1 := by
    refine ⟨s1, e1, by rw [c1]; exact cont_verify, by rw [d1]; exact Nat.le_refl _, Or.inr ⟨d1.symm, by rw [hl1]; decide⟩, ?_, ?_,
      by rw [f1.2.2.1, hF.maxDepth]; exact hmd⟩
    · intro i hi; rw [d1] at hi; rw [g1]
      have : i ≠ 0 := by omega
      simp [this]
    · intro _ _; rw [hl1]; decide
  have hr1 : st1.p.rem = encElems xs ++ [0x43] := rem_step hsh hrem f1 u1
  -- elements
  obtain ⟨st2, i2, r2, p2⟩ := pass_elems xs (1 + (W.size - tokensE xs)) st1 none 0 1 [0x43] hD1 hr1 hwf
    (by rw [hl1]; exact ⟨Or.inl rfl, by decide⟩)
    (by rw [d1, f1.2.2.1, hF.maxDepth, hl1]; exact hfit')
  have hD2 : Deep st2 0 1 := hD1.after p2.base p2.ad
  have hd2 : st2.p.depth = 1 := by rw [p2.base.depth, d1]
  have hf2 : (st2.p.getLvl 0).flags = .arr1 ∨ (st2.p.getLvl 0).flags = .arr2 := by have := p2.flags; rw [hi1] at this; exact this
  have ha2 : (st2.p.getLvl 0).ad = 1 := by have := p2.ad; rw [hi1, g1] at this; simpa [arrInnerLevel, Level.zero] using this
  -- root `]`
  obtain ⟨st3, i3, v3, e3, f3⟩ := iter_root_arrEnd (sn := none) (oa := 0) (od := 1) hD2.shape hD2.err
    (by rw [p2.base.moved.scan, c1]) hd2 (by rw [p2.base.moved.frame.2.2.2.1, f1.2.2.2.1, hF.ptype]) hf2 ha2 (by decide) [] r2
  simp only [if_true] at e3
  rw [advLoop_cont i1, i2, show 1 + (W.size - tokensE xs) = (W.size - tokensE xs) + 1 by omega, advLoop_ret i3]
  simp only
  refine ⟨trivial, e3, (f1.trans p2.base.moved.frame).trans f3, ?_⟩
  obtain ⟨new, en, wn⟩ := p2.base.moved.ev
  rw [v3, en, v1]
  have hb1 : st1.p.buf = buf := by rw [f1.2.1, hF.buf]
  rw [hb1, hl1] at wn
  simp only [List.reverse_cons, List.reverse_append, List.reverse_nil, List.nil_append, List.map_append, List.map_cons, List.map_nil,
    List.append_assoc, wn]
  simp [viewsOf, view, arrInnerLevel, Level.zero]

/-- value-level packaging: root kind, parser type number and well-formedness of the document -/
def rootNum : Root → Nat | .object => 1 | .array => 2

theorem verify_of_advance {W : Parser} {buf : Array UInt8} {t md : Nat} (hF : Fresh W buf t md) (b0 bl : UInt8)
    (ht : (t = 1 ∧ b0 = 0x40 ∧ bl = 0x41) ∨ (t = 2 ∧ b0 = 0x42 ∧ bl = 0x43))
    (h2 : 2 ≤ buf.size) (hb0 : buf.getD 0 0 = b0) (hbl : buf.getD (buf.size - 1) 0 = bl) (vs : List EvView)
    (hadv : ∀ W', Fresh W' buf t md → (advance W' .verify none).ret = false ∧ (advance W' .verify none).p.err = .none ∧
      W'.Frame (advance W' .verify none).p ∧ (advance W' .verify none).ev.map (view buf) = vs) :
    (verify W).2.1 = true ∧ (verify W).2.2.map (view buf) = vs ∧ Fresh (verify W).1 buf t md := by
  obtain ⟨r1, F1⟩ := reset_fresh hF b0 bl ht h2 hb0 hbl
  obtain ⟨a1, a2, a3, a4⟩ := hadv _ F1
  have hsA := (advance_spec (reset W).1 .verify none F1.shape).shape
  obtain ⟨r2, F2⟩ := reset_to_fresh (W := (advance (reset W).1 .verify none).p) hsA (a3.2.1.trans F1.buf) (a3.2.2.2.1.trans F1.ptype)
    (a3.2.2.1.trans F1.maxDepth) b0 bl ht h2 hb0 hbl
  unfold verify
  generalize reset W = rw at r1 F1 a1 a2 a3 a4 hsA r2 F2
  obtain ⟨q, ok⟩ := rw
  simp only at r1 F1 a1 a2 a3 a4 hsA r2 F2 ⊢
  subst r1
  simp only [Bool.not_true, Bool.false_eq_true, if_false, a1, a2, decide_true, Bool.and_self, if_true]
  exact ⟨trivial, a4, F2⟩

/-- verify on a fresh parser over the encoding of a well-formed document: accepted, error-free,
    callbacks exactly `viewsOf 0 v`, and the parser is left fresh again -/
theorem verify_fresh {W : Parser} {buf : Array UInt8} {md : Nat} (root : Root) (hF : Fresh W buf (rootNum root) md) (hmd : md ≤ 255)
    (v : Value) (hbuf : buf.toList = encode v) (hwf : wfDoc root md v = true) :
    (verify W).2.1 = true ∧ (verify W).2.2.map (view buf) = viewsOf 0 v ∧ Fresh (verify W).1 buf (rootNum root) md := by
  unfold wfDoc at hwf
  simp only [Bool.and_eq_true] at hwf
  obtain ⟨⟨hw1, hrk⟩, hfit⟩ := hwf
  cases root with
  | object =>
    cases v with
    | obj fs =>
      have hbs : buf.size = (encode (.obj fs)).length := by rw [← hbuf]; simp
      have h2 : 2 ≤ buf.size := by rw [hbs]; simp [encode]
      have hbe : buf = (encode (.obj fs)).toArray := by rw [← hbuf]
      have hb0 : buf.getD 0 0 = 0x40 := by rw [hbe]; simp only [encode]; exact toArray_getD_head _ _ _
      have hbl : buf.getD (buf.size - 1) 0 = 0x41 := by
        rw [hbe]; simp only [encode, List.size_toArray]; exact toArray_getD_last _ _ _ _
      exact verify_of_advance hF 0x40 0x41 (Or.inl ⟨rfl, rfl, rfl⟩) h2 hb0 hbl _
        (fun W' hF' => advance_fresh_obj hF' hmd fs hbuf (by simpa [wfValue] using hw1) hfit)
    | _ => simp [rootKindOk] at hrk
  | array =>
    cases v with
    | arr xs =>
      have hbs : buf.size = (encode (.arr xs)).length := by rw [← hbuf]; simp
      have h2 : 2 ≤ buf.size := by rw [hbs]; simp [encode]
      have hbe : buf = (encode (.arr xs)).toArray := by rw [← hbuf]
      have hb0 : buf.getD 0 0 = 0x42 := by rw [hbe]; simp only [encode]; exact toArray_getD_head _ _ _
      have hbl : buf.getD (buf.size - 1) 0 = 0x43 := by
        rw [hbe]; simp only [encode, List.size_toArray]; exact toArray_getD_last _ _ _ _
      exact verify_of_advance hF 0x42 0x43 (Or.inr ⟨rfl, rfl, rfl⟩) h2 hb0 hbl _
        (fun W' hF' => advance_fresh_arr hF' hmd xs hbuf (by simpa [wfValue] using hw1) hfit)
    | _ => simp [rootKindOk] at hrk

end Binson

namespace Binson

/-- init + verify on the encoding of a well-formed document, from ANY allocated parser object -/
theorem verify_wellformed (g : Parser) (ha : Alloc g) (hmd : g.maxDepth ≤ 255) (root : Root) (v : Value)
    (hwf : wfDoc root g.maxDepth v = true) (hsz : (encode v).length < 2 ^ 63) :
    (init g (encode v).toArray (rootNum root)).2 = true ∧
    Fresh (init g (encode v).toArray (rootNum root)).1 (encode v).toArray (rootNum root) g.maxDepth ∧
    (verify (init g (encode v).toArray (rootNum root)).1).2.1 = true ∧
    (verify (init g (encode v).toArray (rootNum root)).1).2.2.map (view (encode v).toArray) = viewsOf 0 v := by
  have hwf' := hwf
  unfold wfDoc at hwf
  simp only [Bool.and_eq_true] at hwf
  obtain ⟨⟨_, hrk⟩, _⟩ := hwf
  have key : ∀ (b0 bl : UInt8) (m : Bytes), encode v = b0 :: (m ++ [bl]) →
      ((rootNum root = 1 ∧ b0 = 0x40 ∧ bl = 0x41) ∨ (rootNum root = 2 ∧ b0 = 0x42 ∧ bl = 0x43)) →
      (init g (encode v).toArray (rootNum root)).2 = true ∧
      Fresh (init g (encode v).toArray (rootNum root)).1 (encode v).toArray (rootNum root) g.maxDepth := by
    intro b0 bl m he ht
    apply init_fresh g ha _ _ b0 bl ht
    · rw [List.size_toArray, he]; simp
    · rw [List.size_toArray]; exact hsz
    · rw [he]; exact toArray_getD_head _ _ _
    · rw [List.size_toArray, he]; exact toArray_getD_last _ _ _ _
  have hi : (init g (encode v).toArray (rootNum root)).2 = true ∧
      Fresh (init g (encode v).toArray (rootNum root)).1 (encode v).toArray (rootNum root) g.maxDepth := by
    cases root with
    | object =>
      cases v with
      | obj fs => exact key 0x40 0x41 (encFields fs) (by simp [encode]) (Or.inl ⟨rfl, rfl, rfl⟩)
      | _ => simp [rootKindOk] at hrk
    | array =>
      cases v with
      | arr xs => exact key 0x42 0x43 (encElems xs) (by simp [encode]) (Or.inr ⟨rfl, rfl, rfl⟩)
      | _ => simp [rootKindOk] at hrk
  have hv := verify_fresh root hi.2 hmd v (by simp) hwf'
  exact ⟨hi.1, hi.2, hv.1, hv.2.1⟩

end Binson
