/-
  Lemmas about `_binson_to_string_cb` (Model/Print.lean `toStringCbV`): every `snprintf` stays
  inside the claimed capacity, `buffer_used` counts the full text, `buffer_full` is raised exactly
  when text plus NUL no longer fit, and the stored text is the text of the stdout callback.
  Used by Props/C13.lean.
-/
import Binson.Lemmas.PrintLemmas
namespace Binson

/-! ### the string literal `"\"0x"` -/

theorem ByteArray_toList_loop (bs : ByteArray) (i : Nat) (r : List UInt8) :
    ByteArray.toList.loop bs i r = r.reverse ++ bs.data.toList.drop i := by
  fun_induction ByteArray.toList.loop bs i r with
  | case1 i r h ih =>
    rw [ih]
    have h' : i < bs.data.toList.length := by rw [Array.length_toList, ByteArray.size_data]; exact h
    rw [List.drop_eq_getElem_cons h']
    have hg : bs.get! i = bs.data.toList[i] := by
      cases bs with
      | mk d =>
        simp only [ByteArray.get!]
        simp at h'
        simp [h']
    simp [hg]
  | case2 i r h =>
    have h' : bs.data.toList.length ≤ i := by rw [Array.length_toList, ByteArray.size_data]; omega
    simp [List.drop_of_length_le h']

theorem ByteArray_toList_eq (bs : ByteArray) : bs.toList = bs.data.toList := by
  simp [ByteArray.toList, ByteArray_toList_loop]

theorem strBytes_q0x : strBytes "\"0x" = [0x22, 0x30, 0x78] := by
  show (String.ofList ['"', '0', 'x']).toByteArray.toList = _
  rw [String.toByteArray_ofList, ByteArray_toList_eq, List.utf8Encode, List.toList_data_toByteArray]
  decide

theorem hexAll_length (s : List UInt8) : (hexAll s).length = 2 * s.length := by
  induction s with
  | nil => rfl
  | cons b r ih => simp [hexAll, hex2, ih]; omega

/-! ### `_check_boundary` without wrap-around -/

theorem checkBoundary_eq (a b max : Nat) (hb : b < two64) (hm : max < two64) :
    checkBoundary a b max = decide (a + b ≤ max) := by
  simp only [checkBoundary, two64] at *
  by_cases h : a + b ≤ max
  · have h1 : (a + b) % 18446744073709551616 = a + b := Nat.mod_eq_of_lt (by omega)
    simp [h1, h]
  · simp only [h, decide_false]
    by_cases h2 : (a + b) % 18446744073709551616 > max
    · simp [h2]
    · have : (a + b) % 18446744073709551616 < a := by omega
      simp [h2, this]

/-! ### list surgery -/

theorem drop_splice {α} (L l : List α) (off k : Nat) (h1 : off + l.length ≤ k) (h2 : off ≤ L.length) :
    (L.take off ++ (l ++ L.drop (off + l.length))).drop k = L.drop k := by
  apply List.ext_getElem?
  intro i
  have hlen : (L.take off).length = off := by simp [List.length_take]; omega
  rw [List.getElem?_drop, List.getElem?_drop, List.getElem?_append, hlen, if_neg (by omega),
    List.getElem?_append, if_neg (by omega), List.getElem?_drop]
  congr 1
  omega

theorem take_splice {α} (L l D : List α) (off : Nat) (h2 : off ≤ L.length) :
    (L.take off ++ (l ++ D)).take (off + l.length) = L.take off ++ l := by
  rw [← List.append_assoc]
  apply List.take_left'
  simp [List.length_take]; omega

theorem take_init {α} (L a : List α) (z : α) (n : Nat) (h : L.take (n + 1) = a ++ [z]) (hn : a.length = n) :
    L.take n = a := by
  have : L.take n = (L.take (n + 1)).take n := by rw [List.take_take]; congr 1; omega
  rw [this, h]
  exact List.take_left' hn

/-! ### `storeText` and `snprintf` -/

theorem storeText_size (l : List UInt8) : ∀ (mem : Array UInt8) (off : Nat),
    (storeText mem off l).size = mem.size := by
  induction l with
  | nil => intro mem off; rfl
  | cons b r ih => intro mem off; simp [storeText, ih]

theorem storeText_toList (l : List UInt8) : ∀ (mem : Array UInt8) (off : Nat),
    off + l.length ≤ mem.size →
    (storeText mem off l).toList = mem.toList.take off ++ (l ++ mem.toList.drop (off + l.length)) := by
  induction l with
  | nil => intro mem off _; simp [storeText]
  | cons b r ih =>
    intro mem off h
    simp only [List.length_cons] at h
    have hlt : off < mem.toList.length := by simp; omega
    rw [storeText, ih _ _ (by simp; omega), Array.toList_setIfInBounds,
      List.set_eq_take_append_cons_drop, if_pos hlt]
    have hlen : (mem.toList.take off).length = off := by simp [List.length_take]; omega
    have e1 : (mem.toList.take off ++ b :: mem.toList.drop (off + 1)).take (off + 1)
        = mem.toList.take off ++ [b] := by
      have : mem.toList.take off ++ b :: mem.toList.drop (off + 1)
          = (mem.toList.take off ++ [b]) ++ mem.toList.drop (off + 1) := by simp
      rw [this]
      apply List.take_left'
      simp [hlen]
    have e2 : (mem.toList.take off ++ b :: mem.toList.drop (off + 1)).drop (off + 1 + r.length)
        = mem.toList.drop (off + (r.length + 1)) := by
      have := drop_splice mem.toList [b] off (off + 1 + r.length) (by simp) (by omega)
      simp only [List.length_cons, List.length_nil, List.singleton_append, Nat.zero_add] at this
      rw [this]
      congr 1
      omega
    rw [e1, e2]
    simp

/-- the memory-safety part of the invariant: the claimed capacity is `size`, no store left the
    destination `m0`, its size is unchanged and nothing at or beyond `size` was modified -/
structure Safe (size : Nat) (m0 : Array UInt8) (c : TSCtx) : Prop where
  hsize : c.size = size
  fault : c.fault = false
  msize : c.mem.size = m0.size
  tail : c.mem.toList.drop size = m0.toList.drop size

theorem snp_zero (c : TSCtx) (dst : Option Nat) (text : List UInt8) : snp c dst 0 text = c := by
  simp [snp]

theorem snp_some (c : TSCtx) (off avail : Nat) (text : List UInt8) (h : 0 < avail) :
    snp c (some off) avail text =
      { c with mem := storeText c.mem off (text.take (avail - 1) ++ [0]),
               fault := c.fault || decide (c.mem.size < off + (text.take (avail - 1)).length + 1) } := by
  have : ¬ avail = 0 := by omega
  simp [snp, this]

theorem snp_frame (c : TSCtx) (dst : Option Nat) (avail : Nat) (text : List UInt8) :
    (snp c dst avail text).size = c.size ∧ (snp c dst avail text).used = c.used ∧
    (snp c dst avail text).pstate = c.pstate ∧ (snp c dst avail text).full = c.full := by
  unfold snp
  split
  · exact ⟨rfl, rfl, rfl, rfl⟩
  · cases dst <;> exact ⟨rfl, rfl, rfl, rfl⟩

/-- a `snprintf` whose (possibly truncated) output plus NUL ends inside the claimed capacity is safe -/
theorem snp_safe {size : Nat} {m0 : Array UInt8} {c : TSCtx} (hle : size ≤ m0.size) (hc : Safe size m0 c)
    (off avail : Nat) (text : List UInt8) (hav : 0 < avail)
    (hfit : off + min (avail - 1) text.length + 1 ≤ size) :
    Safe size m0 (snp c (some off) avail text) := by
  rw [snp_some c off avail text hav]
  have hl : (text.take (avail - 1) ++ [0]).length = min (avail - 1) text.length + 1 := by
    simp [List.length_take]
  have hm := hc.msize
  refine ⟨hc.hsize, ?_, ?_, ?_⟩
  · show (c.fault || decide (c.mem.size < off + (text.take (avail - 1)).length + 1)) = false
    rw [hc.fault, List.length_take]
    simp
    omega
  · show (storeText c.mem off _).size = m0.size
    rw [storeText_size, hm]
  · show (storeText c.mem off _).toList.drop size = _
    rw [storeText_toList _ _ _ (by rw [hl]; omega), ← hc.tail]
    apply drop_splice
    · rw [hl]; omega
    · simp; omega

/-- an untruncated `snprintf` at offset `off` extends the text before `off` by `text` and a NUL -/
theorem snp_content (c : TSCtx) (off avail : Nat) (text t' : List UInt8) (hav : text.length < avail)
    (hfit : off + text.length + 1 ≤ c.mem.size) (ht : c.mem.toList.take off = t') :
    (snp c (some off) avail text).mem.toList.take (off + text.length + 1) = t' ++ text ++ [0] := by
  rw [snp_some c off avail text (by omega)]
  have hb : text.take (avail - 1) = text := List.take_of_length_le (by omega)
  show (storeText c.mem off _).toList.take _ = _
  rw [hb, storeText_toList _ _ _ (by simp; omega)]
  have e : off + text.length + 1 = off + (text ++ [0]).length := by simp; omega
  rw [e, take_splice _ _ _ _ (by simp; omega), ht]
  simp

/-! ### the callback, with its local functions named -/

/-- `avail` as computed at the top of the callback -/
def availOf (c : TSCtx) : Nat := if c.used < c.size then c.size - c.used else 0
/-- `dst`: the cursor, or NULL when nothing is available -/
def dstOf (c : TSCtx) (avail : Nat) : Option Nat := if avail > 0 then some c.used else none

/-- raise `buffer_full` when `b` -/
def setFull (c : TSCtx) (b : Bool) : TSCtx := { c with full := c.full || b }

/-- the one-`snprintf` cases -/
def tsSimple (c : TSCtx) (avail ps : Nat) (text : List UInt8) : TSCtx :=
  let c := snp { c with pstate := ps } (dstOf c avail) avail text
  let ret := text.length
  let c := if ret ≥ avail then { c with full := true } else c
  let c := if !checkBoundary c.used ret c.size then { c with full := true } else c
  { c with used := c.used + ret }

/-- the `"0x` prefix of the bytes case: context, `avail`, `base` -/
def tsBytesPre (c : TSCtx) (avail : Nat) : TSCtx × Nat :=
  let c := snp c (dstOf c avail) avail (strBytes "\"0x")
  let r : TSCtx × Nat := if !checkBoundary c.used 3 c.size then ({ c with full := true }, 0) else (c, avail)
  let c := { r.1 with used := r.1.used + 3 }
  let avail := if r.2 ≥ 3 then r.2 - 3 else r.2
  (c, avail)

/-- the rest of the bytes case: pre-check, hex loop, closing quote -/
def tsBytesPost (c : TSCtx) (avail : Nat) (data : List UInt8) : TSCtx :=
  let base := dstOf c avail
  let r : TSCtx × Nat :=
    if data.length > sizeMax / 2 - 2 ∨ !checkBoundary c.used (data.length * 2 + 2) c.size
    then ({ c with full := true }, 0) else (c, avail)
  let c := r.1
  let avail := r.2
  let h := hexLoop c base avail 0 data
  let c := snp h.1 (if avail > 0 then base.map (· + h.2) else none) avail [quote]
  let ret := h.2 + 1
  let c := if ret ≥ avail then { c with full := true } else c
  let c := if !checkBoundary c.used ret c.size then { c with full := true } else c
  { c with used := c.used + ret }

/-- the comma, if `p` -/
def tsCommaIf (p : Prop) [Decidable p] (c : TSCtx) (avail : Nat) : TSCtx × Nat :=
  if p then tsComma c avail else (c, avail)

def to5 (c : TSCtx) : TSCtx := if c.pstate = 4 then { c with pstate := 5 } else c

/-- `toStringCbV` with its local functions named (same computation) -/
def tsCb (F : Fmts) (c : TSCtx) (v : EvView) : TSCtx :=
  let r := tsCommaIf (v.tok ≠ .arrEnd ∧ c.pstate = 5) c (availOf c)
  let c := to5 r.1
  let avail := r.2
  match v.tok with
  | .objBegin => tsSimple c avail 1 [0x7b]
  | .objEnd => tsSimple c avail (if v.ad > 0 then 5 else 2) [0x7d]
  | .arrBegin => tsSimple c avail 4 [0x5b]
  | .arrEnd => tsSimple c avail (if v.ad = 0 then 2 else c.pstate) [0x5d]
  | .fieldName =>
    let r := tsCommaIf (c.pstate = 2) c avail
    tsSimple r.1 r.2 2 (quote :: (cstr v.name ++ [quote, 0x3a]))
  | .bytes =>
    let r := tsBytesPre c avail
    tsBytesPost r.1 r.2 v.span
  | .error => tsSimple c avail c.pstate []
  | _ => tsSimple c avail c.pstate (scalarText F v)

theorem toStringCbV_eq (F : Fmts) (c : TSCtx) (v : EvView) : toStringCbV F c v = tsCb F c v := by
  obtain ⟨tok, ad, name, span, val⟩ := v
  unfold toStringCbV tsCb
  extract_lets tok' avail r c1 avail1 c2 dstOf' simple r2 data c5 r3 src c4 avail4 base r4 c3 avail3 h c6 ret c7 c8 r' c' avail' r2'
  have hs : simple = tsSimple := rfl
  have hr : r' = r := rfl
  have hc : c' = c2 := rfl
  have ha : avail' = avail1 := rfl
  have hr2 : r2' = r2 := rfl
  clear_value c2 avail1
  have e1 : (c4, avail4) = tsBytesPre c2 avail1 := rfl
  clear_value c4 avail4
  have hb : ({ c8 with used := c8.used + ret } : TSCtx) = tsBytesPost c4 avail4 data := rfl
  have e1a : c4 = (tsBytesPre c2 avail1).1 := congrArg Prod.fst e1
  have e1b : avail4 = (tsBytesPre c2 avail1).2 := congrArg Prod.snd e1
  rw [hb, e1a, e1b, hs]
  clear_value r2 r
  subst hr2 hr hc ha
  cases tok <;> rfl

/-! ### the invariant -/

/-- weak invariant (holds initially and between the `snprintf`s of one callback): `used` is the
    length of the text so far, `full` only if text plus NUL do not fit, the text is stored if it
    fits with room for a NUL -/
structure WInv (size : Nat) (m0 : Array UInt8) (c : TSCtx) (t : List UInt8) : Prop where
  safe : Safe size m0 c
  used : c.used = t.length
  full : c.full = true → size ≤ t.length
  cont : t.length < size → c.mem.toList.take t.length = t

/-- strong invariant (holds after every callback): moreover `full` is exact and the NUL is there -/
structure SInv (size : Nat) (m0 : Array UInt8) (c : TSCtx) (t : List UInt8) : Prop where
  w : WInv size m0 c t
  fullIff : size ≤ t.length → c.full = true
  contNul : t.length < size → c.mem.toList.take (t.length + 1) = t ++ [0]

theorem WInv.avail {size : Nat} {m0 : Array UInt8} {c : TSCtx} {t : List UInt8} (h : WInv size m0 c t) :
    availOf c = if t.length < size then size - t.length else 0 := by
  unfold availOf; rw [h.used, h.safe.hsize]

theorem WInv.setPs {size : Nat} {m0 : Array UInt8} {c : TSCtx} {t : List UInt8} (h : WInv size m0 c t)
    (ps : Nat) : WInv size m0 { c with pstate := ps } t :=
  ⟨⟨h.safe.hsize, h.safe.fault, h.safe.msize, h.safe.tail⟩, h.used, h.full, h.cont⟩

/-- one `snprintf(dst, avail, text)` at the cursor -/
theorem piece {size : Nat} {m0 : Array UInt8} {c : TSCtx} {t : List UInt8} (hle : size ≤ m0.size)
    (h : WInv size m0 c t) (text : List UInt8) :
    Safe size m0 (snp c (dstOf c (availOf c)) (availOf c) text) ∧
    (t.length + text.length < size →
      (snp c (dstOf c (availOf c)) (availOf c) text).mem.toList.take (t.length + text.length + 1)
        = t ++ text ++ [0]) := by
  by_cases hlt : t.length < size
  · have hav : availOf c = size - t.length := by rw [h.avail, if_pos hlt]
    have hd : dstOf c (availOf c) = some t.length := by
      unfold dstOf; rw [hav, if_pos (by omega), h.used]
    rw [hd, hav]
    refine ⟨snp_safe hle h.safe _ _ _ (by omega) (by omega), fun hfit => ?_⟩
    have hm := h.safe.msize
    exact snp_content c t.length _ text t (by omega) (by omega) (h.cont hlt)
  · have hav : availOf c = 0 := by rw [h.avail, if_neg hlt]
    rw [hav, snp_zero]
    exact ⟨h.safe, fun hfit => absurd hfit (by omega)⟩

/-! ### the common tail: the two `full` tests and the cursor advance -/

def tsFinish (c' : TSCtx) (avail ret : Nat) : TSCtx :=
  let c := if ret ≥ avail then { c' with full := true } else c'
  let c := if !checkBoundary c.used ret c.size then { c with full := true } else c
  { c with used := c.used + ret }

theorem tsFinish_eq (c' : TSCtx) (avail ret : Nat) :
    tsFinish c' avail ret =
      { c' with full := c'.full || decide (ret ≥ avail) || !checkBoundary c'.used ret c'.size,
                used := c'.used + ret } := by
  unfold tsFinish
  by_cases h1 : ret ≥ avail <;> cases h2 : checkBoundary c'.used ret c'.size <;> simp [h1, h2]

theorem tsFinish_inv {size : Nat} {m0 : Array UInt8} (hs : size < two64) (c' : TSCtx) (avail ret n : Nat)
    (T : List UInt8) (hsafe : Safe size m0 c') (hused : c'.used = n)
    (hfull : c'.full = true → size ≤ n + ret) (hav : ret ≥ avail ↔ size ≤ n + ret)
    (hT : T.length = n + ret)
    (hcont : n + ret < size → c'.mem.toList.take (n + ret + 1) = T ++ [0]) :
    SInv size m0 (tsFinish c' avail ret) T ∧ (tsFinish c' avail ret).pstate = c'.pstate := by
  rw [tsFinish_eq]
  refine ⟨⟨⟨⟨hsafe.hsize, hsafe.fault, hsafe.msize, hsafe.tail⟩, ?_, ?_, ?_⟩, ?_, ?_⟩, rfl⟩
  · show c'.used + ret = T.length
    omega
  · show (c'.full || decide (ret ≥ avail) || !checkBoundary c'.used ret c'.size) = true → size ≤ T.length
    intro hf
    rw [hT]
    by_cases hr : ret < two64
    · rw [checkBoundary_eq _ _ _ hr (by rw [hsafe.hsize]; exact hs), hsafe.hsize, hused] at hf
      simp only [Bool.or_eq_true, decide_eq_true_eq, Bool.not_eq_true', decide_eq_false_iff_not] at hf
      rcases hf with (hf | hf) | hf
      · exact hfull hf
      · exact hav.1 hf
      · omega
    · omega
  · show T.length < size → c'.mem.toList.take T.length = T
    intro hlt
    rw [hT] at hlt
    exact take_init _ _ 0 _ (by rw [hT]; exact hcont hlt) rfl
  · show size ≤ T.length → (c'.full || decide (ret ≥ avail) || !checkBoundary c'.used ret c'.size) = true
    intro hge
    rw [hT] at hge
    have := hav.2 hge
    simp [this]
  · show T.length < size → c'.mem.toList.take (T.length + 1) = T ++ [0]
    intro hlt
    rw [hT] at hlt ⊢
    exact hcont hlt

/-! ### the one-`snprintf` cases -/

theorem tsSimple_inv {size : Nat} {m0 : Array UInt8} {c : TSCtx} {t : List UInt8} (hle : size ≤ m0.size)
    (hs : size < two64) (h : WInv size m0 c t) (ps : Nat) (text : List UInt8) :
    SInv size m0 (tsSimple c (availOf c) ps text) (t ++ text) ∧
    (tsSimple c (availOf c) ps text).pstate = ps := by
  have h1 := h.setPs ps
  have hp : Safe size m0 (snp { c with pstate := ps } (dstOf c (availOf c)) (availOf c) text) ∧
      (t.length + text.length < size →
        (snp { c with pstate := ps } (dstOf c (availOf c)) (availOf c) text).mem.toList.take
          (t.length + text.length + 1) = t ++ text ++ [0]) := piece hle h1 text
  have hf := snp_frame { c with pstate := ps } (dstOf c (availOf c)) (availOf c) text
  have e : tsSimple c (availOf c) ps text =
      tsFinish (snp { c with pstate := ps } (dstOf c (availOf c)) (availOf c) text) (availOf c) text.length := rfl
  rw [e]
  have hav : text.length ≥ availOf c ↔ size ≤ t.length + text.length := by
    rw [h.avail]; split <;> omega
  have := tsFinish_inv hs _ (availOf c) text.length t.length (t ++ text) hp.1
    (by rw [hf.2.1]; exact h.used) (fun hfu => by rw [hf.2.2.2] at hfu; have := h.full hfu; omega) hav
    (by simp) (fun hlt => by have := hp.2 hlt; simpa using this)
  exact ⟨this.1, by rw [this.2, hf.2.2.1]⟩

/-! ### the comma and the `"0x` prefix: one `snprintf`, one boundary test, advance -/

def prefixStep (c : TSCtx) (avail : Nat) (text : List UInt8) : TSCtx :=
  let c' := snp c (dstOf c avail) avail text
  { c' with full := c'.full || !checkBoundary c'.used text.length c'.size, used := c'.used + text.length }

theorem prefix_inv {size : Nat} {m0 : Array UInt8} {c : TSCtx} {t : List UInt8} (hle : size ≤ m0.size)
    (hs : size < two64) (h : WInv size m0 c t) (text : List UInt8) (hl : text.length < two64) :
    WInv size m0 (prefixStep c (availOf c) text) (t ++ text) ∧
    (prefixStep c (availOf c) text).pstate = c.pstate := by
  have hp := piece hle h text
  have hf := snp_frame c (dstOf c (availOf c)) (availOf c) text
  unfold prefixStep
  refine ⟨⟨⟨hp.1.hsize, hp.1.fault, hp.1.msize, hp.1.tail⟩, ?_, ?_, ?_⟩, hf.2.2.1⟩
  · show (snp c _ _ text).used + text.length = (t ++ text).length
    rw [hf.2.1, h.used]; simp
  · show ((snp c _ _ text).full || !checkBoundary (snp c _ _ text).used text.length (snp c _ _ text).size) = true
      → size ≤ (t ++ text).length
    rw [hf.2.2.2, hf.2.1, hf.1, checkBoundary_eq _ _ _ hl (by rw [h.safe.hsize]; exact hs), h.safe.hsize, h.used]
    intro hfu
    simp only [Bool.or_eq_true, Bool.not_eq_true', decide_eq_false_iff_not] at hfu
    simp only [List.length_append]
    rcases hfu with hfu | hfu
    · have := h.full hfu; omega
    · omega
  · show (t ++ text).length < size → (snp c _ _ text).mem.toList.take (t ++ text).length = t ++ text
    intro hlt
    simp only [List.length_append] at hlt ⊢
    exact take_init _ _ 0 _ (hp.2 hlt) (by simp)

theorem tsComma_eq (c : TSCtx) (avail : Nat) :
    tsComma c avail = (prefixStep c avail [0x2c], if avail > 0 then avail - 1 else avail) := by
  unfold tsComma prefixStep
  cases h2 : checkBoundary (snp c (if avail > 0 then some c.used else none) avail [0x2c]).used 1
      (snp c (if avail > 0 then some c.used else none) avail [0x2c]).size <;>
    simp [h2, dstOf]

theorem tsComma_inv {size : Nat} {m0 : Array UInt8} {c : TSCtx} {t : List UInt8} (hle : size ≤ m0.size)
    (hs : size < two64) (h : WInv size m0 c t) :
    WInv size m0 (tsComma c (availOf c)).1 (t ++ [0x2c]) ∧ (tsComma c (availOf c)).1.pstate = c.pstate ∧
    (tsComma c (availOf c)).2 = availOf (tsComma c (availOf c)).1 := by
  rw [tsComma_eq]
  have hp := prefix_inv hle hs h [0x2c] (by simp [two64])
  refine ⟨hp.1, hp.2, ?_⟩
  show (if availOf c > 0 then availOf c - 1 else availOf c) = availOf (prefixStep c (availOf c) [0x2c])
  rw [hp.1.avail, h.avail]
  simp only [List.length_append, List.length_cons, List.length_nil, Nat.zero_add]
  by_cases h1 : t.length < size <;> by_cases h2 : t.length + 1 < size <;> simp only [h1, h2, if_true, if_false] <;>
    (try split) <;> omega

theorem tsCommaIf_inv {size : Nat} {m0 : Array UInt8} {c : TSCtx} {t : List UInt8} (hle : size ≤ m0.size)
    (hs : size < two64) (h : WInv size m0 c t) (p : Prop) [Decidable p] :
    WInv size m0 (tsCommaIf p c (availOf c)).1 (t ++ if p then [0x2c] else []) ∧
    (tsCommaIf p c (availOf c)).1.pstate = c.pstate ∧
    (tsCommaIf p c (availOf c)).2 = availOf (tsCommaIf p c (availOf c)).1 := by
  unfold tsCommaIf
  by_cases hp : p
  · simp only [hp, if_true]; exact tsComma_inv hle hs h
  · simp only [hp, if_false, List.append_nil]; exact ⟨h, trivial, trivial⟩

theorem to5_inv {size : Nat} {m0 : Array UInt8} {c : TSCtx} {t : List UInt8} (h : WInv size m0 c t) :
    WInv size m0 (to5 c) t ∧ availOf (to5 c) = availOf c ∧ (to5 c).pstate = if c.pstate = 4 then 5 else c.pstate := by
  unfold to5
  split
  · exact ⟨h.setPs 5, rfl, rfl⟩
  · exact ⟨h, rfl, rfl⟩

/-! ### the bytes case -/

theorem tsBytesPre_fst (c : TSCtx) (avail : Nat) :
    (tsBytesPre c avail).1 = prefixStep c avail (strBytes "\"0x") := by
  unfold tsBytesPre prefixStep
  rw [strBytes_q0x]
  cases h2 : checkBoundary (snp c (dstOf c avail) avail [0x22, 0x30, 0x78]).used 3
      (snp c (dstOf c avail) avail [0x22, 0x30, 0x78]).size <;> simp [h2]

theorem tsBytesPre_snd (c : TSCtx) (avail : Nat) :
    (tsBytesPre c avail).2 =
      if checkBoundary c.used 3 c.size then (if avail ≥ 3 then avail - 3 else avail) else 0 := by
  have hf := snp_frame c (dstOf c avail) avail (strBytes "\"0x")
  unfold tsBytesPre
  simp only [hf.1, hf.2.1]
  cases h2 : checkBoundary c.used 3 c.size <;> simp

theorem tsBytesPre_inv {size : Nat} {m0 : Array UInt8} {c : TSCtx} {t : List UInt8} (hle : size ≤ m0.size)
    (hs : size < two64) (h : WInv size m0 c t) :
    WInv size m0 (tsBytesPre c (availOf c)).1 (t ++ strBytes "\"0x") ∧
    (tsBytesPre c (availOf c)).1.pstate = c.pstate ∧
    (tsBytesPre c (availOf c)).2 = availOf (tsBytesPre c (availOf c)).1 := by
  have hl : (strBytes "\"0x").length = 3 := by rw [strBytes_q0x]; rfl
  have hp := prefix_inv hle hs h (strBytes "\"0x") (by rw [hl]; simp [two64])
  rw [tsBytesPre_snd, tsBytesPre_fst]
  refine ⟨hp.1, hp.2, ?_⟩
  rw [hp.1.avail, h.avail, checkBoundary_eq _ _ _ (by simp [two64]) (by rw [h.safe.hsize]; exact hs),
    h.safe.hsize, h.used]
  simp only [List.length_append, hl]
  by_cases h0 : t.length < size <;> by_cases h1 : t.length + 3 ≤ size <;>
    by_cases h2 : t.length + 3 < size <;>
    simp only [h0, h1, h2, decide_true, decide_false, if_true, if_false, Bool.false_eq_true] <;>
    (try split) <;> omega

theorem hexLoop_zero (c : TSCtx) (base : Option Nat) : ∀ (data : List UInt8) (ret : Nat),
    hexLoop c base 0 ret data = (c, ret + 2 * data.length) := by
  intro data
  induction data with
  | nil => intro ret; rfl
  | cons b r ih =>
    intro ret
    rw [hexLoop, snp_zero, ih]
    simp only [List.length_cons]
    congr 1
    omega

theorem hexLoop_fits {size : Nat} {m0 : Array UInt8} (hle : size ≤ m0.size) (u avail : Nat)
    (hav : avail = size - u) : ∀ (data : List UInt8) (c : TSCtx) (ret : Nat) (pre : List UInt8),
    Safe size m0 c → c.mem.toList.take (u + ret) = pre → u + ret + 2 * data.length + 2 ≤ size →
    (hexLoop c (some u) avail ret data).2 = ret + 2 * data.length ∧
    Safe size m0 (hexLoop c (some u) avail ret data).1 ∧
    (hexLoop c (some u) avail ret data).1.mem.toList.take (u + (ret + 2 * data.length)) = pre ++ hexAll data ∧
    (hexLoop c (some u) avail ret data).1.used = c.used ∧
    (hexLoop c (some u) avail ret data).1.full = c.full ∧
    (hexLoop c (some u) avail ret data).1.pstate = c.pstate := by
  intro data
  induction data with
  | nil =>
    intro c ret pre hsafe hpre _
    simp only [hexLoop, List.length_nil, Nat.mul_zero, Nat.add_zero, hexAll, List.append_nil]
    exact ⟨trivial, hsafe, hpre, trivial, trivial, trivial⟩
  | cons b r ih =>
    intro c ret pre hsafe hpre hfit
    simp only [List.length_cons] at hfit
    have hpos : avail > 0 := by omega
    have hm := hsafe.msize
    have hprelen : pre.length = u + ret := by
      rw [← hpre, List.length_take, Array.length_toList]; omega
    have hd : (if avail > 0 then (some u).map (· + ret) else none) = some (u + ret) := by
      rw [if_pos hpos]; rfl
    have hh : (hex2 b).length = 2 := rfl
    have hsafe1 : Safe size m0 (snp c (some (u + ret)) avail (hex2 b)) :=
      snp_safe hle hsafe _ _ _ hpos (by rw [hh]; omega)
    have hc1 := snp_content c (u + ret) avail (hex2 b) pre (by rw [hh]; omega) (by rw [hh]; omega) hpre
    have hf := snp_frame c (some (u + ret)) avail (hex2 b)
    have hpre1 : (snp c (some (u + ret)) avail (hex2 b)).mem.toList.take (u + (ret + 2)) = pre ++ hex2 b := by
      apply take_init _ _ 0
      · rw [← hc1, hh, Nat.add_assoc u ret 2]
      · rw [List.length_append, hh, hprelen]; omega
    have := ih (snp c (some (u + ret)) avail (hex2 b)) (ret + 2) (pre ++ hex2 b) hsafe1 hpre1 (by omega)
    rw [hexLoop, hd]
    have e : ret + 2 * (r.length + 1) = ret + 2 + 2 * r.length := by omega
    simp only [List.length_cons, e, hexAll]
    rw [← List.append_assoc]
    exact ⟨this.1, this.2.1, this.2.2.1, by rw [this.2.2.2.1, hf.2.1], by rw [this.2.2.2.2.1, hf.2.2.2],
      by rw [this.2.2.2.2.2, hf.2.2.1]⟩

theorem sizeMax_val : sizeMax = 18446744073709551615 := by decide

theorem tsBytesPost_eq (c : TSCtx) (avail : Nat) (data : List UInt8) :
    tsBytesPost c avail data =
      (let r : TSCtx × Nat :=
        if data.length > sizeMax / 2 - 2 ∨ !checkBoundary c.used (data.length * 2 + 2) c.size
        then ({ c with full := true }, 0) else (c, avail)
       let h := hexLoop r.1 (dstOf c avail) r.2 0 data
       tsFinish (snp h.1 (if r.2 > 0 then (dstOf c avail).map (· + h.2) else none) r.2 [quote]) r.2 (h.2 + 1)) :=
  rfl

theorem tsBytesPost_inv {size : Nat} {m0 : Array UInt8} {c : TSCtx} {t : List UInt8} (hle : size ≤ m0.size)
    (hs : size < two64 / 2) (h : WInv size m0 c t) (data : List UInt8) :
    SInv size m0 (tsBytesPost c (availOf c) data) (t ++ (hexAll data ++ [quote])) ∧
    (tsBytesPost c (availOf c) data).pstate = c.pstate := by
  have hs64 : size < two64 := by simp only [two64] at hs ⊢; omega
  have hs63 : size < 9223372036854775808 := by simp only [two64] at hs; omega
  have hTlen : (t ++ (hexAll data ++ [quote])).length = t.length + (0 + 2 * data.length + 1) := by
    simp [hexAll_length]
  by_cases hbig : data.length > sizeMax / 2 - 2 ∨ (!checkBoundary c.used (data.length * 2 + 2) c.size) = true
  · have e : tsBytesPost c (availOf c) data =
        tsFinish (snp (hexLoop { c with full := true } (dstOf c (availOf c)) 0 0 data).1
          (if 0 > 0 then (dstOf c (availOf c)).map (· + (hexLoop { c with full := true } (dstOf c (availOf c)) 0 0 data).2) else none)
          0 [quote]) 0 ((hexLoop { c with full := true } (dstOf c (availOf c)) 0 0 data).2 + 1) := by
      rw [tsBytesPost_eq]
      simp only [if_pos hbig]
    rw [e, snp_zero, hexLoop_zero]
    have hge : size ≤ t.length + (0 + 2 * data.length + 1) := by
      rcases hbig with hb | hb
      · rw [sizeMax_val] at hb; omega
      · by_cases hl : data.length > sizeMax / 2 - 2
        · rw [sizeMax_val] at hl; omega
        · rw [sizeMax_val] at hl
          rw [checkBoundary_eq _ _ _ (by simp only [two64]; omega) (by rw [h.safe.hsize]; exact hs64),
            h.safe.hsize, h.used] at hb
          simp only [Bool.not_eq_true', decide_eq_false_iff_not] at hb
          omega
    exact tsFinish_inv hs64 { c with full := true } 0 _ t.length _
      ⟨h.safe.hsize, h.safe.fault, h.safe.msize, h.safe.tail⟩ h.used (fun _ => hge)
      ⟨fun _ => hge, fun _ => Nat.zero_le _⟩ hTlen (fun hlt => absurd hlt (by omega))
  · have e : tsBytesPost c (availOf c) data =
        tsFinish (snp (hexLoop c (dstOf c (availOf c)) (availOf c) 0 data).1
          (if availOf c > 0 then (dstOf c (availOf c)).map (· + (hexLoop c (dstOf c (availOf c)) (availOf c) 0 data).2) else none)
          (availOf c) [quote]) (availOf c) ((hexLoop c (dstOf c (availOf c)) (availOf c) 0 data).2 + 1) := by
      rw [tsBytesPost_eq]
      simp only [if_neg hbig]
    have hl : ¬ data.length > sizeMax / 2 - 2 := fun hx => hbig (Or.inl hx)
    have hcb : checkBoundary c.used (data.length * 2 + 2) c.size = true := by
      cases hx : checkBoundary c.used (data.length * 2 + 2) c.size
      · exact absurd (Or.inr (by simp [hx])) hbig
      · rfl
    rw [sizeMax_val] at hl
    rw [checkBoundary_eq _ _ _ (by simp only [two64]; omega) (by rw [h.safe.hsize]; exact hs64),
      h.safe.hsize, h.used] at hcb
    simp only [decide_eq_true_eq] at hcb
    have hlt : t.length < size := by omega
    have hav : availOf c = size - t.length := by rw [h.avail, if_pos hlt]
    have hd : dstOf c (availOf c) = some t.length := by
      unfold dstOf; rw [hav, if_pos (by omega), h.used]
    have hm := h.safe.msize
    have hL := hexLoop_fits hle t.length (availOf c) hav data c 0 t h.safe (h.cont hlt) (by omega)
    rw [hd] at e
    generalize hexLoop c (some t.length) (availOf c) 0 data = H at e hL
    obtain ⟨hL2, hLsafe, hLcont, hLused, hLfull, hLps⟩ := hL
    have hdst : (if availOf c > 0 then (some t.length).map (· + H.2) else none) = some (t.length + H.2) := by
      rw [if_pos (by omega)]; rfl
    rw [hdst] at e
    have hq : ([quote] : List UInt8).length = 1 := rfl
    have hsafe2 : Safe size m0 (snp H.1 (some (t.length + H.2)) (availOf c) [quote]) :=
      snp_safe hle hLsafe _ _ _ (by omega) (by rw [hq]; omega)
    have hm2 := hLsafe.msize
    have hc2 := snp_content H.1 (t.length + H.2) (availOf c) [quote] (t ++ hexAll data) (by rw [hq]; omega)
      (by rw [hq]; omega) (by rw [hL2]; exact hLcont)
    have hf := snp_frame H.1 (some (t.length + H.2)) (availOf c) [quote]
    rw [e]
    have := tsFinish_inv hs64 (snp H.1 (some (t.length + H.2)) (availOf c) [quote]) (availOf c) (H.2 + 1)
      t.length (t ++ (hexAll data ++ [quote])) hsafe2 (by rw [hf.2.1, hLused]; exact h.used)
      (fun hfu => by rw [hf.2.2.2, hLfull] at hfu; have := h.full hfu; omega)
      (by rw [hL2, hav]; omega) (by rw [hTlen, hL2])
      (fun _ => by
        rw [hq] at hc2
        rw [← Nat.add_assoc, hc2]; simp)
    exact ⟨this.1, by rw [this.2, hf.2.2.1, hLps]⟩

/-! ### one callback -/

theorem SInv.congr {size : Nat} {m0 : Array UInt8} {c : TSCtx} {t t' : List UInt8} (h : SInv size m0 c t)
    (e : t = t') : SInv size m0 c t' := e ▸ h

theorem cb_step {size : Nat} {m0 : Array UInt8} {c : TSCtx} {t : List UInt8} (hle : size ≤ m0.size)
    (hs : size < two64 / 2) (h : WInv size m0 c t) (F : Fmts) (v : EvView) :
    SInv size m0 (toStringCbV F c v) (t ++ (printCbV F c.pstate v).2) ∧
    (toStringCbV F c v).pstate = (printCbV F c.pstate v).1 := by
  have hs64 : size < two64 := by simp only [two64] at hs ⊢; omega
  obtain ⟨tok, ad, name, span, val⟩ := v
  rw [toStringCbV_eq]
  unfold tsCb
  dsimp only
  have h0 := tsCommaIf_inv hle hs64 h (tok ≠ .arrEnd ∧ c.pstate = 5)
  generalize tsCommaIf (tok ≠ .arrEnd ∧ c.pstate = 5) c (availOf c) = R at h0 ⊢
  obtain ⟨hW0, hps0, hav0⟩ := h0
  have h5 := to5_inv hW0
  rw [hav0, ← h5.2.1]
  generalize to5 R.1 = c2 at h5 ⊢
  obtain ⟨hW2, -, hps2⟩ := h5
  rw [hps0] at hps2
  cases tok
  case fieldName =>
    dsimp only
    have h1 := tsCommaIf_inv hle hs64 hW2 (c2.pstate = 2)
    generalize tsCommaIf (c2.pstate = 2) c2 (availOf c2) = R2 at h1 ⊢
    obtain ⟨hW3, -, hav3⟩ := h1
    rw [hav3]
    have := tsSimple_inv hle hs64 hW3 2 (quote :: (cstr name ++ [quote, 0x3a]))
    refine ⟨this.1.congr ?_, this.2⟩
    simp [printCbV, hps2]
  case bytes =>
    dsimp only
    have h1 := tsBytesPre_inv hle hs64 hW2
    generalize tsBytesPre c2 (availOf c2) = R3 at h1 ⊢
    obtain ⟨hW3, hps3, hav3⟩ := h1
    rw [hav3]
    have := tsBytesPost_inv hle hs hW3 span
    refine ⟨this.1.congr ?_, ?_⟩
    · simp [printCbV]
    · rw [this.2, hps3, hps2]; simp [printCbV]
  all_goals
    dsimp only
    have := tsSimple_inv hle hs64 hW2
    refine ⟨(this _ _).1.congr ?_, ?_⟩
    · simp [printCbV, scalarText]
    · rw [(this _ _).2]; simp [printCbV, hps2]

/-! ### the fold -/

theorem toStringFoldV_cons (F : Fmts) (c : TSCtx) (v : EvView) (vs : List EvView) :
    toStringFoldV F c (v :: vs) = toStringFoldV F (toStringCbV F c v) vs := rfl

/-- the weak invariant is preserved by any run; text and `pstate` are those of the stdout callback -/
theorem fold_winv {size : Nat} {m0 : Array UInt8} (hle : size ≤ m0.size) (hs : size < two64 / 2) (F : Fmts) :
    ∀ (vs : List EvView) (c : TSCtx) (t : List UInt8), WInv size m0 c t →
    WInv size m0 (toStringFoldV F c vs) (t ++ printFoldV F c.pstate vs) ∧
    (toStringFoldV F c vs).pstate = psFoldV F c.pstate vs := by
  intro vs
  induction vs with
  | nil => intro c t h; simpa [toStringFoldV, printFoldV, psFoldV] using h
  | cons v r ih =>
    intro c t h
    have hstep := cb_step hle hs h F v
    have := ih _ _ hstep.1.w
    rw [hstep.2, List.append_assoc] at this
    exact this

/-- after at least one callback the strong invariant holds -/
theorem fold_sinv {size : Nat} {m0 : Array UInt8} (hle : size ≤ m0.size) (hs : size < two64 / 2) (F : Fmts) :
    ∀ (vs : List EvView) (c : TSCtx) (t : List UInt8), SInv size m0 c t →
    SInv size m0 (toStringFoldV F c vs) (t ++ printFoldV F c.pstate vs) := by
  intro vs
  induction vs with
  | nil => intro c t h; simpa [toStringFoldV, printFoldV] using h
  | cons v r ih =>
    intro c t h
    have hstep := cb_step hle hs h.w F v
    have := ih _ _ hstep.1
    rw [hstep.2, List.append_assoc] at this
    exact this

theorem fold_sinv_of_ne_nil {size : Nat} {m0 : Array UInt8} (hle : size ≤ m0.size) (hs : size < two64 / 2)
    (F : Fmts) (vs : List EvView) (hne : vs ≠ []) (c : TSCtx) (t : List UInt8) (h : WInv size m0 c t) :
    SInv size m0 (toStringFoldV F c vs) (t ++ printFoldV F c.pstate vs) := by
  cases vs with
  | nil => exact absurd rfl hne
  | cons v r =>
    have hstep := cb_step hle hs h F v
    have := fold_sinv hle hs F r _ _ hstep.1
    rw [hstep.2, List.append_assoc] at this
    exact this

end Binson
