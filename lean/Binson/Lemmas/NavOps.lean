/-
  Layer 4, part 19: the public calls `go_into_*`, `leave_*`, `get_raw` against the invariant
  (inside the document), packaged as observable agreement + invariant again.
-/
import Binson.Lemmas.NavOpLeave
namespace Binson

theorem obs_done {p : Parser} {c : Cursor} {op : COp} {p' : Parser} {c' : Cursor}
    (hm : machNav p op = (p', true, none)) (hc : c.step op = (c', ⟨true, none, none⟩))
    (he : p'.err = .none) (hf : p'.fault = false) (ho : p'.oof = false) (hd : p'.depth = c'.depth)
    (hfr : c'.frames = []) (hdn : c'.done = true) :
    Obs p c op ∧ Agree (machNav p op).1 (c.step op).1 := by
  unfold Obs
  rw [hm, hc]
  exact ⟨⟨rfl, rfl, he, hf, ho, hd, fun it hi => by cases hi⟩, Agree.done hfr hdn⟩

theorem leaveObject_eq {p : Parser} (hs : Shape p) (hf : (p.getLvl p.lvlIdx).flags.inObject = true) :
    leaveObject p = (if !(advance p .leaveObj none).ret then ((advance p .leaveObj none).p, decide ((advance p .leaveObj none).p.err = .none))
      else ((advance p .leaveObj none).p, true)) := by
  unfold leaveObject
  simp only [touchLvl_of_lt hs.lvlIdx_lt, hf, Bool.not_true, Bool.false_eq_true, if_false]

theorem leaveArray_eq {p : Parser} (hs : Shape p) (hf : (p.getLvl p.lvlIdx).flags.inArray = true) :
    leaveArray p = (if !(advance p .leaveArr none).ret then ((advance p .leaveArr none).p, decide ((advance p .leaveArr none).p.err = .none))
      else ((advance p .leaveArr none).p, true)) := by
  unfold leaveArray
  simp only [touchLvl_of_lt hs.lvlIdx_lt, hf, Bool.not_true, Bool.false_eq_true, if_false]

namespace Run

variable {p : Parser} {c : Cursor} {L : RLevel} {Ls : List RLevel} {pend : Option Value}

/-- the flags of the current entry, whatever is pending -/
theorem top_flags (h : Run p c L Ls pend) : (p.getLvl Ls.length).flags = nflags L ∨ (p.getLvl Ls.length).flags = pflags L := by
  cases pend with
  | none => exact Or.inl h.pend.2.1
  | some v => exact Or.inr h.pend.2.2.1

/-- entering is only allowed on a pending container of the right kind -/
theorem enter_allowed (h : Run p c L Ls pend) (op : COp) (hop : op = .enterObj ∨ op = .enterArr) (ha : c.allowed op = true) :
    ∃ v nm, pend = some v ∧ c.cur = some (annotate nm p.used v) ∧
      (op = .enterObj → (annotate nm p.used v).item.ty = .object) ∧ (op = .enterArr → (annotate nm p.used v).item.ty = .array) := by
  obtain ⟨f, fr, hfl⟩ := flat_ne_nil h.base
  have hce := h.c_eq
  rw [hfl] at hce
  cases pend with
  | none =>
    obtain ⟨_, _, h3⟩ := h.pend
    rcases h3 with h3 | ⟨n, h3, _, h5, h6⟩
    · rw [h3] at hce; rw [hce, allowed_enter_none _ _ _ _ _ hop] at ha; cases ha
    · rw [h3] at hce
      rcases hop with rfl | rfl
      · rw [hce, allowed_enter_obj] at ha; exact absurd (by simpa using ha) h5
      · rw [hce, allowed_enter_arr] at ha; exact absurd (by simpa using ha) h6
  | some v =>
    obtain ⟨_, _, _, ⟨nm, h4⟩, _⟩ := h.pend
    refine ⟨v, nm, rfl, h4, ?_, ?_⟩
    · intro ho; subst ho
      rw [h4] at hce; rw [hce, allowed_enter_obj] at ha; simpa using ha
    · intro ho; subst ho
      rw [h4] at hce; rw [hce, allowed_enter_arr] at ha; simpa using ha

/-- `go_into_object` -/
theorem step_enterObj (h : Run p c L Ls pend) (ha : c.allowed .enterObj = true) :
    Obs p c .enterObj ∧ Agree (machNav p .enterObj).1 (c.step .enterObj).1 := by
  have hm : machNav p .enterObj = ((advance p .enterObj none).p, (advance p .enterObj none).ret, none) := rfl
  obtain ⟨v, nm, hp, hcur, ht, _⟩ := h.enter_allowed .enterObj (Or.inl rfl) ha
  subst hp
  have hty := ht rfl
  cases v with
  | obj fs =>
    obtain ⟨e, hr⟩ := h.adv_enter_obj
    obtain ⟨f, fr, hfl⟩ := flat_ne_nil h.base
    have hrl := rem_len h.shape h.pend.2.1
    have hc : c.step .enterObj = (mkCur c.arrayRoot p.size (flat (⟨none, some fs, []⟩ :: L :: Ls)) none, ⟨true, none, none⟩) := by
      have hce := h.c_eq
      rw [hcur, hfl] at hce
      rw [hce, flat_obj, hfl]
      refine step_enter_obj _ _ _ _ _ _ _ ?_
      rw [hfl] at hrl
      simp only [encode, List.length_cons, List.length_append, List.length_nil, tailBytes, RFrame.enc] at hrl ⊢
      omega
    exact obs_agree hm hc e rfl (fun it hi => by cases hi) hr
  | arr xs => simp [annotate, Node.item] at hty
  | bool _ => simp [annotate, Node.item] at hty
  | int _ => simp [annotate, Node.item] at hty
  | dbl _ => simp [annotate, Node.item] at hty
  | str _ => simp [annotate, Node.item] at hty
  | bytes _ => simp [annotate, Node.item] at hty

/-- `go_into_array` -/
theorem step_enterArr (h : Run p c L Ls pend) (ha : c.allowed .enterArr = true) :
    Obs p c .enterArr ∧ Agree (machNav p .enterArr).1 (c.step .enterArr).1 := by
  have hm : machNav p .enterArr = ((advance p .enterArr none).p, (advance p .enterArr none).ret, none) := rfl
  obtain ⟨v, nm, hp, hcur, _, ht⟩ := h.enter_allowed .enterArr (Or.inr rfl) ha
  subst hp
  have hty := ht rfl
  obtain ⟨pv, b, arrs⟩ := L
  cases v with
  | arr xs =>
    obtain ⟨e, hr⟩ := h.adv_enter_arr
    obtain ⟨f, fr, hfl⟩ := flat_ne_nil h.base
    have hrl := rem_len h.shape h.pend.2.1
    have hc : c.step .enterArr = (mkCur c.arrayRoot p.size (flat (⟨pv, b, xs :: arrs⟩ :: Ls)) none, ⟨true, none, none⟩) := by
      have hce := h.c_eq
      rw [hcur, hfl] at hce
      rw [hce, flat_arr, hfl]
      refine step_enter_arr _ _ _ _ _ _ _ ?_
      rw [hfl] at hrl
      simp only [encode, List.length_cons, List.length_append, List.length_nil, tailBytes, RFrame.enc] at hrl ⊢
      omega
    exact obs_agree hm hc e rfl (fun it hi => by cases hi) hr
  | obj fs => simp [annotate, Node.item] at hty
  | bool _ => simp [annotate, Node.item] at hty
  | int _ => simp [annotate, Node.item] at hty
  | dbl _ => simp [annotate, Node.item] at hty
  | str _ => simp [annotate, Node.item] at hty
  | bytes _ => simp [annotate, Node.item] at hty

/-- `leave_object` -/
theorem step_leaveObj (h : Run p c L Ls pend) (ha : c.allowed .leaveObj = true) :
    Obs p c .leaveObj ∧ Agree (machNav p .leaveObj).1 (c.step .leaveObj).1 := by
  have hm0 : machNav p .leaveObj = ((leaveObject p).1, (leaveObject p).2, none) := rfl
  obtain ⟨pv, b, arrs⟩ := L
  cases arrs with
  | cons xs ar =>
    rw [h.c_eq, flat_arr, allowed_leave_obj] at ha
    cases ha
  | nil =>
    obtain ⟨fs, hb⟩ := h.top_obj rfl
    simp only at hb
    subst hb
    have hfl : (p.getLvl p.lvlIdx).flags.inObject = true := by
      rw [h.lvlIdx]
      rcases h.top_flags with hf | hf <;> rw [hf] <;> rfl
    rw [leaveObject_eq h.shape hfl] at hm0
    have hce := h.c_eq
    rw [flat_obj] at hce
    cases Ls with
    | cons L2 Ls' =>
      obtain ⟨e, hr⟩ := h.adv_leave_obj
      rw [e] at hm0
      simp only [Bool.not_true, Bool.false_eq_true, if_false] at hm0
      obtain ⟨f, fr, hfl2⟩ := flat_ne_nil h.base.2
      have hc : c.step .leaveObj = (mkCur c.arrayRoot p.size (flat (L2 :: Ls')) none, ⟨true, none, none⟩) := by
        rw [hce, step_leave _ _ _ _ _ _ (Or.inl rfl), cframes_isEmpty, hfl2]
        rfl
      exact obs_agree hm0 hc rfl rfl (fun it hi => by cases hi) hr
    | nil =>
      obtain ⟨e, e2, e3, e4, e5⟩ := h.adv_leave_obj_root
      rw [e, e2] at hm0
      simp only [Bool.not_false, if_true, decide_true] at hm0
      have har : c.arrayRoot = false := by
        cases hr : c.arrayRoot with
        | false => rfl
        | true => have := h.base.1.mpr hr; cases this
      have hc : c.step .leaveObj = (⟨c.arrayRoot, none, [], none, true⟩, ⟨true, none, none⟩) := by
        rw [hce, step_leave _ _ _ _ _ _ (Or.inl rfl)]
        rfl
      exact obs_done hm0 hc e2 e4 e5 (by rw [e3]; simp [Cursor.depth, Cursor.objDepth, har]) rfl rfl

/-- `leave_array` -/
theorem step_leaveArr (h : Run p c L Ls pend) (ha : c.allowed .leaveArr = true) :
    Obs p c .leaveArr ∧ Agree (machNav p .leaveArr).1 (c.step .leaveArr).1 := by
  have hm0 : machNav p .leaveArr = ((leaveArray p).1, (leaveArray p).2, none) := rfl
  obtain ⟨pv, b, arrs⟩ := L
  cases arrs with
  | nil =>
    obtain ⟨fs, hb⟩ := h.top_obj rfl
    simp only at hb
    subst hb
    rw [h.c_eq, flat_obj, allowed_leave_arr] at ha
    cases ha
  | cons xs ar =>
    have hfl : (p.getLvl p.lvlIdx).flags.inArray = true := by
      rw [h.lvlIdx]
      rcases h.top_flags with hf | hf <;> rw [hf] <;> rfl
    rw [leaveArray_eq h.shape hfl] at hm0
    have hce := h.c_eq
    rw [flat_arr] at hce
    by_cases hroot : IsRootArr b ar Ls
    · obtain ⟨h1, h2, h3⟩ := hroot
      subst h1; subst h2; subst h3
      obtain ⟨e, e2, e3, e4, e5⟩ := h.adv_leave_arr_root
      rw [e, e2] at hm0
      simp only [Bool.not_false, if_true, decide_true] at hm0
      have har : c.arrayRoot = true := h.base.1.mp rfl
      have hc : c.step .leaveArr = (⟨c.arrayRoot, none, [], none, true⟩, ⟨true, none, none⟩) := by
        rw [hce, step_leave _ _ _ _ _ _ (Or.inr rfl)]
        rfl
      exact obs_done hm0 hc e2 e4 e5 (by rw [e3]; simp [Cursor.depth, Cursor.objDepth, har]) rfl rfl
    · obtain ⟨e, hr⟩ := h.adv_leave_arr hroot
      rw [e] at hm0
      simp only [Bool.not_true, Bool.false_eq_true, if_false] at hm0
      obtain ⟨f, fr, hfl2⟩ := flat_ne_nil hr.base
      have hc : c.step .leaveArr = (mkCur c.arrayRoot p.size (flat (⟨pv, b, ar⟩ :: Ls)) none, ⟨true, none, none⟩) := by
        rw [hce, step_leave _ _ _ _ _ _ (Or.inr rfl), cframes_isEmpty, hfl2]
        rfl
      exact obs_agree hm0 hc rfl rfl (fun it hi => by cases hi) hr

end Run

end Binson
