/-
  Layer 4, part 7: a scalar value AT the originating level: consumed in one iteration, stored in
  the level exactly as the annotated tree says; the loop goes on or stops as the scan word says.
-/
import Binson.Lemmas.NavSkip
import Binson.Spec.Cursor
namespace Binson

/-- the scan word after a value token at the originating level -/
def scanAfter (L : Level) (s : Option Scan) : Option Scan := if L.flags.inArray then clear s .value else s

/-- the level holds the scalar `v` whose encoding starts at `off` -/
structure ScalarOk (p : Parser) (L : Level) (v : Value) (off : Nat) : Prop where
  ty : L.ctype = (annotate none off v).item.ty
  val : L.val = (annotate none off v).item.val
  span : ∀ s, (annotate none off v).item.val = .span s →
    p.slice s = (annotate none off v).item.payload ∧ s.off + s.len ≤ p.size

/-- an iteration that rewrote only the current level, keeping its array depth, stays at the originating level -/
theorem stepRes_keeps {st st' : LoopSt} {oa od : Nat} {du : Nat} {scan' : Option Scan} {NL : Level} (hO : AtOrig st oa od)
    (r : StepRes st st' du scan' st.p.depth (fun i => if i = st.p.lvlIdx then NL else st.p.getLvl i))
    (had : NL.ad = (st.p.getLvl st.p.lvlIdx).ad) :
    AtOrig st' oa od ∧ Kept st st' ∧ st'.p.getLvl st.p.lvlIdx = NL := by
  have hi : st'.p.lvlIdx = st.p.lvlIdx := by unfold Parser.lvlIdx; rw [r.depth]
  have hL : st'.p.getLvl st.p.lvlIdx = NL := by rw [r.lvl]; simp
  refine ⟨⟨r.shape, r.err, by rw [r.depth]; exact hO.d1, by rw [r.depth]; exact hO.od, by rw [hi, hL, had]; exact hO.oa, ?_,
    by rw [r.frame.2.2.1]; exact hO.md255, ?_⟩, ⟨r.depth, r.frame, ?_, by rw [hL, had]⟩, hL⟩
  · intro i h; rw [r.depth] at h; rw [r.lvl]
    have : i ≠ st.p.lvlIdx := by have h1 := hO.d1; have := Parser.lvlIdx_of_pos h1; omega
    simp only [this, if_false]; exact hO.zeros i h
  · intro h1 h2; rw [hi, hL, had]
    exact hO.rootArr (by rw [← r.frame.2.2.2.1]; exact h1) (by rw [← r.depth]; exact h2)
  · intro i h; rw [r.lvl]; simp [Nat.ne_of_lt h]

/-- a scalar token at the originating level, in a value context -/
theorem orig_scalar_tok {st : LoopSt} {sn : Option (List UInt8)} {oa od : Nat} (hO : AtOrig st oa od)
    (tok : Tok) (span : Span) (bc : Nat) (q : Parser) (hq : q = { st.p with used := st.p.used + bc })
    (hcl : classify st.p st.bc = ⟨tok, span, bc, q⟩)
    (hfit : st.p.used + bc ≤ st.p.size) (hsp : span.off + span.len ≤ st.p.size)
    (hsc : tok.isScalar = true)
    (hint : tok = .integer → intBoundsOk (parseIntVal st.p span) span.len = true)
    (hctx : ValCtx (st.p.getLvl st.p.lvlIdx)) :
    ∃ st', iter st sn oa od = (st', outOf (scanAfter (st.p.getLvl st.p.lvlIdx) st.scan)) ∧
      StepRes st st' bc (scanAfter (st.p.getLvl st.p.lvlIdx) st.scan) st.p.depth
        (fun i => if i = st.p.lvlIdx then
          scalarStore tok { st.p.getLvl st.p.lvlIdx with flags := afterFlags (st.p.getLvl st.p.lvlIdx) false } span st.p
          else st.p.getLvl i) := by
  have hval : tok.isValue = true := by cases tok <;> simp_all [Tok.isScalar, Tok.isValue]
  rcases hctx with ⟨hf, _⟩ | ⟨hf, _⟩
  · have hob := objBlock_val_obj (lv := st.p.getLvl st.p.lvlIdx) (tok := tok) hf hval
    have hab : arrBlock { st.p.getLvl st.p.lvlIdx with flags := .expField } tok
        (decide (oa = ({ st.p.getLvl st.p.lvlIdx with flags := .expField } : Level).ad ∧ od = st.p.depth)) st.scan =
        ({ st.p.getLvl st.p.lvlIdx with flags := .expField }, st.scan) := arrBlock_notArr _ _ _ rfl
    have h1 : afterFlags (st.p.getLvl st.p.lvlIdx) false = .expField := by simp [afterFlags, hf]
    have h2 : scanAfter (st.p.getLvl st.p.lvlIdx) st.scan = st.scan := by simp [scanAfter, hf, Flags.inArray]
    rw [h1, h2]
    exact iter_scalar_gen hO.shape hO.err tok span bc q hq hcl hfit hsp hsc hint _ _ _ hob hab
  · have hina : (st.p.getLvl st.p.lvlIdx).flags.inArray = true := by rcases hf with h | h <;> rw [h] <;> rfl
    have hob := objBlock_arr (lv := st.p.getLvl st.p.lvlIdx) (tok := tok) hf
    have hd : decide (oa = (st.p.getLvl st.p.lvlIdx).ad ∧ od = st.p.depth) = true := by
      simp [← hO.oa, ← hO.od]
    have hab : arrBlock (st.p.getLvl st.p.lvlIdx) tok (decide (oa = (st.p.getLvl st.p.lvlIdx).ad ∧ od = st.p.depth)) st.scan =
        (st.p.getLvl st.p.lvlIdx, clear st.scan .value) := by
      rw [hd]; exact arrBlock_orig_scalar _ hina hsc
    have h1 : ({ st.p.getLvl st.p.lvlIdx with flags := afterFlags (st.p.getLvl st.p.lvlIdx) false } : Level) = st.p.getLvl st.p.lvlIdx := by
      refine Level.eq_of_fields rfl rfl rfl ?_ rfl
      show afterFlags (st.p.getLvl st.p.lvlIdx) false = _
      unfold afterFlags
      rcases hf with h | h <;> simp [h]
    have h2 : scanAfter (st.p.getLvl st.p.lvlIdx) st.scan = clear st.scan .value := by simp [scanAfter, hina]
    rw [h1, h2]
    exact iter_scalar_gen hO.shape hO.err tok span bc q hq hcl hfit hsp hsc hint _ _ _ hob hab

/-- from the closed form of the token to the level-of-the-tree statement -/
theorem orig_scalar_of_tok {st : LoopSt} {sn : Option (List UInt8)} {oa od : Nat} (hO : AtOrig st oa od)
    (tok : Tok) (span : Span) (bc : Nat) (q : Parser) (hq : q = { st.p with used := st.p.used + bc })
    (hcl : classify st.p st.bc = ⟨tok, span, bc, q⟩)
    (hfit : st.p.used + bc ≤ st.p.size) (hsp : span.off + span.len ≤ st.p.size)
    (hsc : tok.isScalar = true)
    (hint : tok = .integer → intBoundsOk (parseIntVal st.p span) span.len = true)
    (hctx : ValCtx (st.p.getLvl st.p.lvlIdx))
    (v : Value) (rest : Bytes) (hrem : st.p.rem = encode v ++ rest) (hlen : (encode v).length = bc)
    (hok : ∀ L : Level, ScalarOk st.p (scalarStore tok L span st.p) v st.p.used) :
    ∃ st', iter st sn oa od = (st', outOf (scanAfter (st.p.getLvl st.p.lvlIdx) st.scan)) ∧ st'.p.rem = rest ∧
      st'.scan = scanAfter (st.p.getLvl st.p.lvlIdx) st.scan ∧ AtOrig st' oa od ∧ Kept st st' ∧
      (st'.p.getLvl st.p.lvlIdx).name = (st.p.getLvl st.p.lvlIdx).name ∧
      (st'.p.getLvl st.p.lvlIdx).flags = afterFlags (st.p.getLvl st.p.lvlIdx) false ∧
      ScalarOk st.p (st'.p.getLvl st.p.lvlIdx) v st.p.used := by
  obtain ⟨st', hi, r⟩ := orig_scalar_tok (sn := sn) hO tok span bc q hq hcl hfit hsp hsc hint hctx
  obtain ⟨n1, n2, n3⟩ := scalarStore_fields tok { st.p.getLvl st.p.lvlIdx with flags := afterFlags (st.p.getLvl st.p.lvlIdx) false } span st.p
  obtain ⟨k1, k2, k3⟩ := stepRes_keeps hO r n3
  refine ⟨st', hi, rem_of_frame r.frame.2.1 r.used hO.shape hrem hlen, r.scan, k1, k2, ?_, ?_, ?_⟩
  · rw [k3, n1]
  · rw [k3, n2]
  · rw [k3]; exact hok _

theorem hdr_off (off n : Nat) : off + hdrLen n = off + 1 + intWidth (n : Int) := by
  unfold hdrLen; omega

/-- a scalar value at the originating level -/
theorem orig_scalar (v : Value) (hsv : v.isContainer = false) {st : LoopSt} {sn : Option (List UInt8)} {oa od : Nat}
    (hO : AtOrig st oa od) (rest : Bytes) (hrem : st.p.rem = encode v ++ rest) (hwf : wfValue v = true)
    (hctx : ValCtx (st.p.getLvl st.p.lvlIdx)) :
    ∃ st', iter st sn oa od = (st', outOf (scanAfter (st.p.getLvl st.p.lvlIdx) st.scan)) ∧ st'.p.rem = rest ∧
      st'.scan = scanAfter (st.p.getLvl st.p.lvlIdx) st.scan ∧ AtOrig st' oa od ∧ Kept st st' ∧
      (st'.p.getLvl st.p.lvlIdx).name = (st.p.getLvl st.p.lvlIdx).name ∧
      (st'.p.getLvl st.p.lvlIdx).flags = afterFlags (st.p.getLvl st.p.lvlIdx) false ∧
      ScalarOk st.p (st'.p.getLvl st.p.lvlIdx) v st.p.used := by
  have hsh := hO.shape
  have hfit := rem_fit hsh hrem
  cases v with
  | arr xs => cases hsv
  | obj fs => cases hsv
  | bool b =>
    have hrem' : st.p.rem = (if b then 0x44 else 0x45) :: rest := by simpa [encode] using hrem
    obtain ⟨c1, c2, _⟩ := classify_bool hsh hO.err st.bc rest b hrem'
    have hl : (encode (.bool b)).length = 1 := by simp [encode]
    rw [hl] at hfit
    exact orig_scalar_of_tok hO .boolean ⟨st.p.used, 1⟩ 1 _ rfl c1 hfit hfit rfl (fun h => by cases h) hctx (.bool b) rest hrem hl
      (fun L => ⟨rfl, by simp only [scalarStore, annotate, Node.item]; rw [c2 st.p rfl], fun s h => by simp [annotate, Node.item] at h⟩)
  | int i =>
    have hi : int64Min ≤ i ∧ i ≤ int64Max := by simpa [wfValue] using hwf
    have hrem' : st.p.rem = encInt 0x10 i ++ rest := by simpa [encode] using hrem
    obtain ⟨c1, c2, c3, _⟩ := classify_int hsh hO.err st.bc rest i hi hrem'
    have hl : (encode (.int i)).length = 1 + intWidth i := by simp [encode, encInt_length]
    rw [hl] at hfit
    exact orig_scalar_of_tok hO .integer ⟨st.p.used + 1, intWidth i⟩ (1 + intWidth i) _ (by simp only [Nat.add_assoc]) c1
      (by omega) (by simp only; omega) rfl (fun _ => by rw [c2 st.p rfl]; exact c3) hctx (.int i) rest hrem hl
      (fun L => ⟨rfl, by simp only [scalarStore, annotate, Node.item]; rw [c2 st.p rfl], fun s h => by simp [annotate, Node.item] at h⟩)
  | dbl bits =>
    have hrem' : st.p.rem = 0x46 :: (leBytes 8 bits.toNat ++ rest) := by simpa [encode] using hrem
    obtain ⟨c1, c2, _⟩ := classify_dbl hsh hO.err st.bc rest bits hrem'
    have hl : (encode (.dbl bits)).length = 9 := by simp [encode]
    rw [hl] at hfit
    exact orig_scalar_of_tok hO .double ⟨st.p.used + 1, 8⟩ 9 _ rfl c1 hfit (by simp only; omega) rfl (fun h => by cases h) hctx
      (.dbl bits) rest hrem hl
      (fun L => ⟨rfl, by simp only [scalarStore, annotate, Node.item]; rw [c2 st.p rfl], fun s h => by simp [annotate, Node.item] at h⟩)
  | str s =>
    have hs : s.length ≤ INT32_MAX := by simpa [wfValue] using hwf
    have hrem' : st.p.rem = encStr 0x14 s ++ rest := by simpa [encode] using hrem
    obtain ⟨c1, c2, _⟩ := classify_str hsh hO.err st.bc rest s hs hrem'
    have hl : (encode (.str s)).length = 1 + intWidth (s.length : Int) + s.length := by simp [encode, encStr_length]
    rw [hl] at hfit
    exact orig_scalar_of_tok hO .string ⟨st.p.used + 1 + intWidth (s.length : Int), s.length⟩ _ _ (by simp only [Nat.add_assoc]) c1
      hfit (by simp only; omega) rfl (fun h => by cases h) hctx (.str s) rest hrem hl
      (fun L => ⟨rfl, by simp only [scalarStore, annotate, Node.item, hdr_off], fun sp h => by
        simp only [annotate, Node.item, hdr_off, Val.span.injEq] at h
        subst h
        exact ⟨c2 st.p rfl, by simp only; omega⟩⟩)
  | bytes s =>
    have hs : s.length ≤ INT32_MAX := by simpa [wfValue] using hwf
    have hrem' : st.p.rem = encStr 0x18 s ++ rest := by simpa [encode] using hrem
    obtain ⟨c1, c2, _⟩ := classify_bytes hsh hO.err st.bc rest s hs hrem'
    have hl : (encode (.bytes s)).length = 1 + intWidth (s.length : Int) + s.length := by simp [encode, encStr_length]
    rw [hl] at hfit
    exact orig_scalar_of_tok hO .bytes ⟨st.p.used + 1 + intWidth (s.length : Int), s.length⟩ _ _ (by simp only [Nat.add_assoc]) c1
      hfit (by simp only; omega) rfl (fun h => by cases h) hctx (.bytes s) rest hrem hl
      (fun L => ⟨rfl, by simp only [scalarStore, annotate, Node.item, hdr_off], fun sp h => by
        simp only [annotate, Node.item, hdr_off, Val.span.injEq] at h
        subst h
        exact ⟨c2 st.p rfl, by simp only; omega⟩⟩)

end Binson
