/-
  Layer 3, part 4: the pass-through lemma proper (mutual structural induction).
-/
import Binson.Lemmas.Pass
namespace Binson

/-- elements of an array: the level is inside the array (`ad ≥ 1`) before and after -/
structure PassedE (st st' : LoopSt) (xs : Elems) : Prop where
  base : Passed st st' (encElems xs).length (viewsOfE (st.p.getLvl st.p.lvlIdx).ad xs)
  ad : (st'.p.getLvl st.p.lvlIdx).ad = (st.p.getLvl st.p.lvlIdx).ad
  name : (st'.p.getLvl st.p.lvlIdx).name = (st.p.getLvl st.p.lvlIdx).name
  flags : (st'.p.getLvl st.p.lvlIdx).flags = .arr1 ∨ (st'.p.getLvl st.p.lvlIdx).flags = .arr2

/-- fields of an object: the level expects a field name before and after -/
structure PassedF (st st' : LoopSt) (fs : Fields) : Prop where
  base : Passed st st' (encFields fs).length (viewsOfF fs)
  ad : (st'.p.getLvl st.p.lvlIdx).ad = (st.p.getLvl st.p.lvlIdx).ad
  flags : (st'.p.getLvl st.p.lvlIdx).flags = .expField

/-- the name the ordering check compares the next field name with -/
def prevName (p : Parser) : Option Bytes := ((p.getLvl p.lvlIdx).name).map p.slice

end Binson

namespace Binson

theorem step_moved {k : Nat} {st st' : LoopSt} {e : Event} (hs : Shape st'.p) (he : st'.p.err = .none)
    (hscan : st'.scan = st.scan) (hu : st'.p.used = st.p.used + 1) (fr : st.p.Frame st'.p)
    (hl : ∀ i, i < k → st'.p.getLvl i = st.p.getLvl i) (hev : st'.ev = e :: st.ev) :
    Moved k st st' 1 [view st.p.buf e] :=
  ⟨hs, he, hu, hscan, fr, hl, ⟨[e], by rw [hev]; rfl, rfl⟩⟩

theorem rem_step {p q : Parser} {b : UInt8} {rest : Bytes} (hs : Shape p) (h : p.rem = b :: rest)
    (fr : p.Frame q) (hu : q.used = p.used + 1) : q.rem = rest :=
  rem_of_frame (bs := [b]) fr.2.1 hu hs (by simpa using h) rfl

theorem afterFlags_arr {l : Level} (h : ValCtx l) :
    afterFlags l true = if l.ad = 0 then .expField else .arr1 := by
  unfold afterFlags
  rcases h with ⟨hf, ha⟩ | ⟨hf, ha⟩
  · simp [hf, ha]
  · have : l.ad ≠ 0 := by omega
    rcases hf with hf | hf <;> simp [hf, this]

theorem afterFlags_obj {l : Level} (h : ValCtx l) :
    afterFlags l false = if l.flags = .expValue then .expField else l.flags := by
  unfold afterFlags; simp

mutual
/-- Pass-through, value: `tokens v` iterations consume exactly `encode v`. -/
theorem pass_value : (v : Value) → ∀ (f : Nat) (st : LoopSt) (sn : Option (List UInt8)) (oa od : Nat) (rest : Bytes),
    Deep st oa od → st.p.rem = encode v ++ rest → wfValue v = true → ValCtx (st.p.getLvl st.p.lvlIdx) →
    fits (st.p.maxDepth - st.p.depth) (255 - (st.p.getLvl st.p.lvlIdx).ad) v = true →
    ∃ st', advLoop (tokens v + f) st sn oa od = advLoop f st' sn oa od ∧ st'.p.rem = rest ∧ PassedV st st' v
  | .bool b, f, st, sn, oa, od, rest, hD, hrem, hwf, hctx, _ => by
    obtain ⟨st', h1, h2, h3⟩ := pass_scalar (.bool b) rfl (sn := sn) hD rest hrem hwf hctx
    exact ⟨st', by rw [show tokens (.bool b) + f = f + 1 by simp [tokens]; omega]; exact advLoop_cont h1, h2, h3⟩
  | .int i, f, st, sn, oa, od, rest, hD, hrem, hwf, hctx, _ => by
    obtain ⟨st', h1, h2, h3⟩ := pass_scalar (.int i) rfl (sn := sn) hD rest hrem hwf hctx
    exact ⟨st', by rw [show tokens (.int i) + f = f + 1 by simp [tokens]; omega]; exact advLoop_cont h1, h2, h3⟩
  | .dbl d, f, st, sn, oa, od, rest, hD, hrem, hwf, hctx, _ => by
    obtain ⟨st', h1, h2, h3⟩ := pass_scalar (.dbl d) rfl (sn := sn) hD rest hrem hwf hctx
    exact ⟨st', by rw [show tokens (.dbl d) + f = f + 1 by simp [tokens]; omega]; exact advLoop_cont h1, h2, h3⟩
  | .str s, f, st, sn, oa, od, rest, hD, hrem, hwf, hctx, _ => by
    obtain ⟨st', h1, h2, h3⟩ := pass_scalar (.str s) rfl (sn := sn) hD rest hrem hwf hctx
    exact ⟨st', by rw [show tokens (.str s) + f = f + 1 by simp [tokens]; omega]; exact advLoop_cont h1, h2, h3⟩
  | .bytes s, f, st, sn, oa, od, rest, hD, hrem, hwf, hctx, _ => by
    obtain ⟨st', h1, h2, h3⟩ := pass_scalar (.bytes s) rfl (sn := sn) hD rest hrem hwf hctx
    exact ⟨st', by rw [show tokens (.bytes s) + f = f + 1 by simp [tokens]; omega]; exact advLoop_cont h1, h2, h3⟩
  | .arr xs, f, st, sn, oa, od, rest, hD, hrem, hwf, hctx, hfit => by
    have hsh := hD.shape
    have hd1 := hD.d1
    have hidx : st.p.lvlIdx = st.p.depth - 1 := Parser.lvlIdx_of_pos hd1
    have hrem' : st.p.rem = 0x42 :: (encElems xs ++ 0x43 :: rest) := by simpa [encode] using hrem
    have hcl := classify_arrBegin hsh hD.err st.bc _ hrem'
    have hlt := (rem_cons hsh hrem').2.1
    have hfit' : (1 ≤ 255 - (st.p.getLvl st.p.lvlIdx).ad) ∧
        fitsE (st.p.maxDepth - st.p.depth) (255 - (st.p.getLvl st.p.lvlIdx).ad - 1) xs = true := by
      simpa [fits] using hfit
    -- `[`
    obtain ⟨st1, i1, s1, e1, c1, u1, d1, f1, g1, v1⟩ := iter_arrBegin' (sn := sn) hD hcl hlt hctx (by omega)
    have hi1 : st1.p.lvlIdx = st.p.lvlIdx := by unfold Parser.lvlIdx; rw [d1]
    have hl1 : st1.p.getLvl st1.p.lvlIdx = arrInnerLevel (st.p.getLvl st.p.lvlIdx) := by rw [hi1, g1]; simp
    have hl1ad : (st1.p.getLvl st1.p.lvlIdx).ad = (st.p.getLvl st.p.lvlIdx).ad + 1 := by rw [hl1]; rfl
    have hD1 : Deep st1 oa od := by
      refine ⟨s1, e1, by rw [c1]; exact hD.cont, by rw [d1]; exact hd1, ?_, ?_, ?_, by rw [f1.2.2.1]; exact hD.md255⟩
      · rw [d1, hl1ad]; rcases hD.deeper with h | ⟨h, h2⟩
        · exact Or.inl h
        · exact Or.inr ⟨h, by omega⟩
      · intro i hi; rw [d1] at hi; rw [g1]
        have : i ≠ st.p.lvlIdx := by omega
        simp only [this, if_false]; exact hD.zeros i hi
      · intro _ _; rw [hl1ad]; omega
    have hr1 : st1.p.rem = encElems xs ++ 0x43 :: rest := rem_step hsh hrem' f1 u1
    -- elements
    obtain ⟨st2, i2, r2, p2⟩ := pass_elems xs (1 + f) st1 sn oa od (0x43 :: rest) hD1 hr1 (by simpa [wfValue] using hwf)
      ⟨by rw [hl1]; exact Or.inl rfl, by rw [hl1ad]; omega⟩
      (by rw [d1, f1.2.2.1, hl1ad, show 255 - ((st.p.getLvl st.p.lvlIdx).ad + 1) = 255 - (st.p.getLvl st.p.lvlIdx).ad - 1 by omega]; exact hfit'.2)
    have hD2 : Deep st2 oa od := hD1.after p2.base p2.ad
    have hi2 : st2.p.lvlIdx = st.p.lvlIdx := by unfold Parser.lvlIdx; rw [p2.base.depth, d1]
    have hl2ad : (st2.p.getLvl st2.p.lvlIdx).ad = (st.p.getLvl st.p.lvlIdx).ad + 1 := by
      have h := p2.ad; rw [hi1] at h; rw [hi2, h]; have h' := hl1ad; rw [hi1] at h'; exact h'
    have hl2f : (st2.p.getLvl st2.p.lvlIdx).flags = .arr1 ∨ (st2.p.getLvl st2.p.lvlIdx).flags = .arr2 := by
      rw [hi2, ← hi1]; exact p2.flags
    have hl2n : (st2.p.getLvl st2.p.lvlIdx).name = (st.p.getLvl st.p.lvlIdx).name := by
      rw [hi2]; have h := p2.name; rw [hi1] at h; rw [h, g1]; simp [arrInnerLevel]
    -- `]`
    have hcl2 := classify_arrEnd hD2.shape hD2.err st2.bc rest r2
    have hlt2 := (rem_cons hD2.shape r2).2.1
    obtain ⟨st3, i3, s3, e3, c3, u3, d3, f3, g3, v3⟩ := iter_arrEnd (sn := sn) hD2 hcl2 hlt2 hl2f (by rw [hl2ad]; omega)
      (by
        intro ⟨h1, h2, h3⟩
        rw [hl2ad] at h1
        have hp : st.p.ptype = 2 := by rw [← f1.2.2.2.1, ← p2.base.moved.frame.2.2.2.1]; exact h2
        have hdp : st.p.depth = 1 := by rw [← d1, ← p2.base.depth]; exact h3
        have := hD.rootArr hp hdp
        omega)
    have hr3 : st3.p.rem = rest := rem_step hD2.shape r2 f3 u3
    -- assemble
    have hL3 : st3.p.getLvl st.p.lvlIdx = arrEndLevel (st2.p.getLvl st2.p.lvlIdx) := by
      rw [g3, hi2]; simp
    have hm1 : Moved st.p.lvlIdx st st1 1 [view st.p.buf (.arrBegin, arrInnerLevel (st.p.getLvl st.p.lvlIdx))] :=
      step_moved s1 e1 c1 u1 f1 (fun i hi => by rw [g1]; simp [Nat.ne_of_lt hi]) v1
    have hm2 : Moved st.p.lvlIdx st1 st2 (encElems xs).length (viewsOfE (st1.p.getLvl st1.p.lvlIdx).ad xs) :=
      p2.base.moved.mono (by rw [hi1]; exact Nat.le_refl _)
    have hm3 : Moved st.p.lvlIdx st2 st3 1 [view st2.p.buf (.arrEnd, arrEndLevel (st2.p.getLvl st2.p.lvlIdx))] :=
      step_moved s3 e3 c3 u3 f3 (fun i hi => by rw [g3, hi2]; simp [Nat.ne_of_lt hi]) v3
    have hm := (hm1.trans hm2).trans hm3
    have hisarr : (Value.arr xs).isArr = true := rfl
    refine ⟨st3, ?_, hr3, ⟨⟨?_, ?_, ?_⟩, ?_, ?_, ?_⟩⟩
    · rw [show tokens (.arr xs) + f = (tokensE xs + (1 + f)) + 1 by simp [tokens]; omega, advLoop_cont i1, i2,
        show 1 + f = f + 1 by omega, advLoop_cont i3]
    · have hlen : (encode (.arr xs)).length = 1 + (encElems xs).length + 1 := by simp [encode]; omega
      have hvw : viewsOf (st.p.getLvl st.p.lvlIdx).ad (.arr xs) =
          [view st.p.buf (.arrBegin, arrInnerLevel (st.p.getLvl st.p.lvlIdx))] ++
          viewsOfE (st1.p.getLvl st1.p.lvlIdx).ad xs ++ [view st2.p.buf (.arrEnd, arrEndLevel (st2.p.getLvl st2.p.lvlIdx))] := by
        rw [hl1ad]
        simp only [viewsOf, view, arrEndLevel, hl2ad]
        simp
      rw [hlen, hvw]; exact hm
    · rw [d3, p2.base.depth, d1]
    · intro i hi
      rw [g3, hi2]
      have : i ≠ st.p.lvlIdx := by omega
      simp only [this, if_false]
      exact p2.base.zeros i (by rw [d1]; exact hi)
    · rw [hL3]; show (st2.p.getLvl st2.p.lvlIdx).ad - 1 = _; rw [hl2ad]; omega
    · rw [hL3]; show (st2.p.getLvl st2.p.lvlIdx).name = _; exact hl2n
    · rw [hL3, hisarr, afterFlags_arr hctx]
      show (if (st2.p.getLvl st2.p.lvlIdx).ad - 1 = 0 then Flags.expField else Flags.arr1) = _
      rw [hl2ad]; simp
  | .obj fs, f, st, sn, oa, od, rest, hD, hrem, hwf, hctx, hfit => by
    have hsh := hD.shape
    have hd1 := hD.d1
    have hidx : st.p.lvlIdx = st.p.depth - 1 := Parser.lvlIdx_of_pos hd1
    have hrem' : st.p.rem = 0x40 :: (encFields fs ++ 0x41 :: rest) := by simpa [encode] using hrem
    have hcl := classify_objBegin hsh hD.err st.bc _ hrem'
    have hlt := (rem_cons hsh hrem').2.1
    have hfit' : (1 ≤ st.p.maxDepth - st.p.depth) ∧ fitsF (st.p.maxDepth - st.p.depth - 1) fs = true := by
      simpa [fits] using hfit
    -- `{`
    obtain ⟨st1, i1, s1, e1, c1, u1, d1, f1, g1, v1⟩ := iter_objBegin (sn := sn) hD hcl hlt hctx (by omega)
    have hi1 : st1.p.lvlIdx = st.p.depth := by unfold Parser.lvlIdx; rw [d1]; simp
    have hl1 : st1.p.getLvl st1.p.lvlIdx = freshObjLevel := by rw [hi1, g1]; simp
    have hD1 : Deep st1 oa od := by
      refine ⟨s1, e1, by rw [c1]; exact hD.cont, by rw [d1]; omega, ?_, ?_, ?_, by rw [f1.2.2.1]; exact hD.md255⟩
      · left; rw [d1]; rcases hD.deeper with h | ⟨h, _⟩ <;> omega
      · intro i hi; rw [d1] at hi; rw [g1]
        have h1 : i ≠ st.p.depth := by omega
        have h2 : i ≠ st.p.lvlIdx := by omega
        simp only [h1, h2, if_false]; exact hD.zeros i (by omega)
      · intro _ h; rw [d1] at h; omega
    have hr1 : st1.p.rem = encFields fs ++ 0x41 :: rest := rem_step hsh hrem' f1 u1
    -- fields
    obtain ⟨st2, i2, r2, p2⟩ := pass_fields fs (1 + f) st1 sn oa od (0x41 :: rest) hD1 hr1
      (by unfold prevName; rw [hl1]; simpa [wfValue, freshObjLevel, Level.zero] using hwf)
      (by rw [hl1]; rfl) (by rw [hl1]; rfl)
      (by rw [d1, f1.2.2.1, show st.p.maxDepth - (st.p.depth + 1) = st.p.maxDepth - st.p.depth - 1 by omega]; exact hfit'.2)
    have hD2 : Deep st2 oa od := hD1.after p2.base p2.ad
    have hd2 : st2.p.depth = st.p.depth + 1 := by rw [p2.base.depth, d1]
    have hi2 : st2.p.lvlIdx = st.p.depth := by unfold Parser.lvlIdx; rw [hd2]; simp
    -- `}`
    have hcl2 := classify_objEnd hD2.shape hD2.err st2.bc rest r2
    have hlt2 := (rem_cons hD2.shape r2).2.1
    obtain ⟨st3, i3, s3, e3, c3, u3, d3, f3, g3, v3⟩ := iter_objEnd (sn := sn) hD2 hcl2 hlt2
      (by rw [hi2, ← hi1]; exact p2.flags) (by omega) (by rw [hd2]; rcases hD.deeper with h | ⟨h, _⟩ <;> omega)
    have hr3 : st3.p.rem = rest := rem_step hD2.shape r2 f3 u3
    -- the enclosing level was not touched while the fields were read
    have hne : st.p.lvlIdx ≠ st.p.depth := by omega
    have hlow2 : st2.p.getLvl st.p.lvlIdx = objOuterLevel (st.p.getLvl st.p.lvlIdx) := by
      rw [p2.base.moved.lower st.p.lvlIdx (by rw [hi1]; omega), g1]
      simp [hne]
    have hL3 : st3.p.getLvl st.p.lvlIdx = objOuterLevel (st.p.getLvl st.p.lvlIdx) := by
      rw [g3, hd2, Nat.add_sub_cancel]
      simp only [hne, if_false]; exact hlow2
    have hm1 : Moved st.p.lvlIdx st st1 1 [view st.p.buf (.objBegin, freshObjLevel)] :=
      step_moved s1 e1 c1 u1 f1 (fun i hi => by
        rw [g1]
        have h1 : i ≠ st.p.depth := by omega
        simp [h1, Nat.ne_of_lt hi]) v1
    have hm2 : Moved st.p.lvlIdx st1 st2 (encFields fs).length (viewsOfF fs) := p2.base.moved.mono (by rw [hi1]; omega)
    have hm3 : Moved st.p.lvlIdx st2 st3 1 [view st2.p.buf (.objEnd, st2.p.getLvl (st2.p.depth - 2))] :=
      step_moved s3 e3 c3 u3 f3 (fun i hi => by
        rw [g3, hd2, Nat.add_sub_cancel]
        have : i ≠ st.p.depth := by omega
        simp [this]) v3
    have hm := (hm1.trans hm2).trans hm3
    have hisarr : (Value.obj fs).isArr = false := rfl
    refine ⟨st3, ?_, hr3, ⟨⟨?_, ?_, ?_⟩, ?_, ?_, ?_⟩⟩
    · rw [show tokens (.obj fs) + f = (tokensF fs + (1 + f)) + 1 by simp [tokens]; omega, advLoop_cont i1, i2,
        show 1 + f = f + 1 by omega, advLoop_cont i3]
    · have hlen : (encode (.obj fs)).length = 1 + (encFields fs).length + 1 := by simp [encode]; omega
      have hpar : st2.p.getLvl (st2.p.depth - 2) = objOuterLevel (st.p.getLvl st.p.lvlIdx) := by
        rw [hd2, show st.p.depth + 1 - 2 = st.p.lvlIdx by omega]; exact hlow2
      have hvw : viewsOf (st.p.getLvl st.p.lvlIdx).ad (.obj fs) =
          [view st.p.buf (.objBegin, freshObjLevel)] ++ viewsOfF fs ++
            [view st2.p.buf (.objEnd, st2.p.getLvl (st2.p.depth - 2))] := by
        rw [hpar]
        simp only [viewsOf, view, objOuterLevel]
        simp
      rw [hlen, hvw]; exact hm
    · rw [d3, hd2]; omega
    · intro i hi
      rw [g3, hd2, Nat.add_sub_cancel]
      by_cases h : i = st.p.depth
      · simp [h]
      · simp only [h, if_false]
        exact p2.base.zeros i (by rw [d1]; omega)
    · rw [hL3]; rfl
    · rw [hL3]; rfl
    · rw [hL3, hisarr, afterFlags_obj hctx]; rfl

/-- Pass-through, elements of an array. -/
theorem pass_elems : (xs : Elems) → ∀ (f : Nat) (st : LoopSt) (sn : Option (List UInt8)) (oa od : Nat) (rest : Bytes),
    Deep st oa od → st.p.rem = encElems xs ++ rest → wfElems xs = true →
    (((st.p.getLvl st.p.lvlIdx).flags = .arr1 ∨ (st.p.getLvl st.p.lvlIdx).flags = .arr2) ∧ 1 ≤ (st.p.getLvl st.p.lvlIdx).ad) →
    fitsE (st.p.maxDepth - st.p.depth) (255 - (st.p.getLvl st.p.lvlIdx).ad) xs = true →
    ∃ st', advLoop (tokensE xs + f) st sn oa od = advLoop f st' sn oa od ∧ st'.p.rem = rest ∧ PassedE st st' xs
  | .nil, f, st, _, _, _, rest, hD, hrem, _, hctx, _ => by
    refine ⟨st, by simp [tokensE], by simpa [encElems] using hrem,
      ⟨⟨⟨hD.shape, hD.err, rfl, rfl, Parser.Frame.refl _, fun _ _ => rfl, ⟨[], rfl, rfl⟩⟩, rfl, hD.zeros⟩, rfl, rfl, hctx.1⟩⟩
  | .cons v r, f, st, sn, oa, od, rest, hD, hrem, hwf, hctx, hfit => by
    have hwf' : wfValue v = true ∧ wfElems r = true := by simpa [wfElems] using hwf
    have hfit' : fits (st.p.maxDepth - st.p.depth) (255 - (st.p.getLvl st.p.lvlIdx).ad) v = true ∧
        fitsE (st.p.maxDepth - st.p.depth) (255 - (st.p.getLvl st.p.lvlIdx).ad) r = true := by simpa [fitsE] using hfit
    have hrem' : st.p.rem = encode v ++ (encElems r ++ rest) := by simpa [encElems] using hrem
    obtain ⟨st1, i1, r1, p1⟩ := pass_value v (tokensE r + f) st sn oa od _ hD hrem' hwf'.1 (Or.inr hctx) hfit'.1
    have hD1 : Deep st1 oa od := hD.after p1.base p1.ad
    have hi1 : st1.p.lvlIdx = st.p.lvlIdx := by unfold Parser.lvlIdx; rw [p1.base.depth]
    have hf1 : (st1.p.getLvl st1.p.lvlIdx).flags = .arr1 ∨ (st1.p.getLvl st1.p.lvlIdx).flags = .arr2 := by
      rw [hi1, p1.flags]; unfold afterFlags
      rcases hctx.1 with h | h <;> cases v.isArr <;> simp [h]
    have ha1 : (st1.p.getLvl st1.p.lvlIdx).ad = (st.p.getLvl st.p.lvlIdx).ad := by rw [hi1, p1.ad]
    obtain ⟨st2, i2, r2, p2⟩ := pass_elems r f st1 sn oa od rest hD1 r1 hwf'.2
      ⟨hf1, by rw [ha1]; exact hctx.2⟩
      (by rw [p1.base.depth, p1.base.moved.frame.2.2.1, ha1]; exact hfit'.2)
    have hm2 : Moved st.p.lvlIdx st1 st2 (encElems r).length (viewsOfE (st1.p.getLvl st1.p.lvlIdx).ad r) :=
      p2.base.moved.mono (by rw [hi1]; exact Nat.le_refl _)
    refine ⟨st2, ?_, r2, ⟨⟨?_, ?_, ?_⟩, ?_, ?_, ?_⟩⟩
    · rw [show tokensE (.cons v r) + f = tokens v + (tokensE r + f) by simp [tokensE]; omega, i1, i2]
    · have hlen : (encElems (.cons v r)).length = (encode v).length + (encElems r).length := by simp [encElems]
      have hvw : viewsOfE (st.p.getLvl st.p.lvlIdx).ad (.cons v r) =
          viewsOf (st.p.getLvl st.p.lvlIdx).ad v ++ viewsOfE (st1.p.getLvl st1.p.lvlIdx).ad r := by
        rw [ha1]; simp [viewsOfE]
      rw [hlen, hvw]
      exact p1.base.moved.trans hm2
    · rw [p2.base.depth, p1.base.depth]
    · intro i hi; exact p2.base.zeros i (by rw [p1.base.depth]; exact hi)
    · have := p2.ad; rw [hi1] at this; rw [this, p1.ad]
    · have := p2.name; rw [hi1] at this; rw [this, p1.name]
    · have := p2.flags; rw [hi1] at this; exact this

/-- Pass-through, fields of an object. -/
theorem pass_fields : (fs : Fields) → ∀ (f : Nat) (st : LoopSt) (sn : Option (List UInt8)) (oa od : Nat) (rest : Bytes),
    Deep st oa od → st.p.rem = encFields fs ++ rest → wfFields (prevName st.p) fs = true →
    (st.p.getLvl st.p.lvlIdx).flags = .expField → (st.p.getLvl st.p.lvlIdx).ad = 0 →
    fitsF (st.p.maxDepth - st.p.depth) fs = true →
    ∃ st', advLoop (tokensF fs + f) st sn oa od = advLoop f st' sn oa od ∧ st'.p.rem = rest ∧ PassedF st st' fs
  | .nil, f, st, _, _, _, rest, hD, hrem, _, hfl, _, _ => by
    refine ⟨st, by simp [tokensF], by simpa [encFields] using hrem,
      ⟨⟨⟨hD.shape, hD.err, rfl, rfl, Parser.Frame.refl _, fun _ _ => rfl, ⟨[], rfl, rfl⟩⟩, rfl, hD.zeros⟩, rfl, hfl⟩⟩
  | .cons n v r, f, st, sn, oa, od, rest, hD, hrem, hwf, hfl, had, hfit => by
    have hsh := hD.shape
    have hd1 := hD.d1
    have hidx : st.p.lvlIdx = st.p.depth - 1 := Parser.lvlIdx_of_pos hd1
    have hwf' : nameAfter (prevName st.p) n = true ∧ n.length ≤ INT32_MAX ∧ wfValue v = true ∧ wfFields (some n) r = true := by
      simpa [wfFields, and_assoc] using hwf
    have hfit' : fits (st.p.maxDepth - st.p.depth) 255 v = true ∧ fitsF (st.p.maxDepth - st.p.depth) r = true := by
      simpa [fitsF] using hfit
    have hrem' : st.p.rem = encStr 0x14 n ++ (encode v ++ (encFields r ++ rest)) := by simpa [encFields] using hrem
    -- the name
    obtain ⟨c1, c2, c3⟩ := classify_str hsh hD.err st.bc _ n hwf'.2.1 hrem'
    have hfitn := rem_fit hsh hrem'
    rw [encStr_length] at hfitn
    have hord : ∀ pn, (st.p.getLvl st.p.lvlIdx).name = some pn →
        cmpBytes (st.p.slice pn) (st.p.slice ⟨st.p.used + 1 + intWidth (n.length : Int), n.length⟩) < 0 := by
      intro pn hpn
      rw [c2 st.p rfl]
      apply cmpBytes_neg_of_lt
      have := hwf'.1
      unfold prevName at this
      rw [hpn] at this
      simpa [nameAfter] using this
    obtain ⟨st1, i1, s1, e1, sc1, u1, d1, f1, g1, v1⟩ := iter_fieldName' (sn := sn) hD
      ⟨st.p.used + 1 + intWidth (n.length : Int), n.length⟩ _ _ (by simp only [Nat.add_assoc]) c1
      hfitn (by simp only; omega) hfl hord
    have hi1 : st1.p.lvlIdx = st.p.lvlIdx := by unfold Parser.lvlIdx; rw [d1]
    have hl1 : st1.p.getLvl st1.p.lvlIdx = nameLevel (st.p.getLvl st.p.lvlIdx) ⟨st.p.used + 1 + intWidth (n.length : Int), n.length⟩ := by
      rw [hi1, g1]; simp
    have hD1 : Deep st1 oa od := by
      refine ⟨s1, e1, by rw [sc1]; exact hD.cont, by rw [d1]; exact hd1, ?_, ?_, ?_, by rw [f1.2.2.1]; exact hD.md255⟩
      · rw [d1, hl1]; exact hD.deeper
      · intro i hi; rw [d1] at hi; rw [g1]
        have : i ≠ st.p.lvlIdx := by omega
        simp only [this, if_false]; exact hD.zeros i hi
      · rw [f1.2.2.2.1, d1, hl1]; exact hD.rootArr
    have hr1 : st1.p.rem = encode v ++ (encFields r ++ rest) :=
      rem_of_frame f1.2.1 u1 hsh hrem' (encStr_length _ _)
    -- the value
    obtain ⟨st2, i2, r2, p2⟩ := pass_value v (tokensF r + f) st1 sn oa od _ hD1 hr1 hwf'.2.2.1
      (by rw [hl1]; exact Or.inl ⟨rfl, had⟩)
      (by rw [d1, f1.2.2.1, hl1]; show fits _ (255 - (st.p.getLvl st.p.lvlIdx).ad) v = true; rw [had]; exact hfit'.1)
    have hD2 : Deep st2 oa od := hD1.after p2.base p2.ad
    have hi2 : st2.p.lvlIdx = st.p.lvlIdx := by unfold Parser.lvlIdx; rw [p2.base.depth, d1]
    have hl2f : (st2.p.getLvl st2.p.lvlIdx).flags = .expField := by
      rw [hi2, ← hi1, p2.flags, hl1]; simp [afterFlags, nameLevel]
    have hl2a : (st2.p.getLvl st2.p.lvlIdx).ad = 0 := by rw [hi2, ← hi1, p2.ad, hl1]; exact had
    have hl2n : (st2.p.getLvl st2.p.lvlIdx).name = some ⟨st.p.used + 1 + intWidth (n.length : Int), n.length⟩ := by
      rw [hi2, ← hi1, p2.name, hl1]; rfl
    have hbuf2 : st2.p.buf = st.p.buf := (f1.trans p2.base.moved.frame).2.1
    -- the remaining fields
    obtain ⟨st3, i3, r3, p3⟩ := pass_fields r f st2 sn oa od rest hD2 r2
      (by
        unfold prevName; rw [hl2n]; simp only [Option.map]
        rw [c2 st2.p hbuf2]; exact hwf'.2.2.2)
      hl2f hl2a
      (by rw [p2.base.depth, d1, p2.base.moved.frame.2.2.1, f1.2.2.1]; exact hfit'.2)
    have hm1 : Moved st.p.lvlIdx st st1 (1 + intWidth (n.length : Int) + n.length)
        [view st.p.buf (.fieldName, nameLevel (st.p.getLvl st.p.lvlIdx) ⟨st.p.used + 1 + intWidth (n.length : Int), n.length⟩)] :=
      ⟨s1, e1, u1, sc1, f1, fun i hi => by rw [g1]; simp [Nat.ne_of_lt hi], ⟨[_], by rw [v1]; rfl, rfl⟩⟩
    have hm2 : Moved st.p.lvlIdx st1 st2 (encode v).length (viewsOf (st1.p.getLvl st1.p.lvlIdx).ad v) :=
      p2.base.moved.mono (by rw [hi1]; exact Nat.le_refl _)
    have hm3 : Moved st.p.lvlIdx st2 st3 (encFields r).length (viewsOfF r) :=
      p3.base.moved.mono (by rw [hi2]; exact Nat.le_refl _)
    have hm := (hm1.trans hm2).trans hm3
    refine ⟨st3, ?_, r3, ⟨⟨?_, ?_, ?_⟩, ?_, ?_⟩⟩
    · rw [show tokensF (.cons n v r) + f = (tokens v + (tokensF r + f)) + 1 by simp [tokensF]; omega, advLoop_cont i1, i2, i3]
    · have hlen : (encFields (.cons n v r)).length = (1 + intWidth (n.length : Int) + n.length) + (encode v).length + (encFields r).length := by
        simp [encFields, encStr_length]; omega
      have hvw : viewsOfF (.cons n v r) =
          [view st.p.buf (.fieldName, nameLevel (st.p.getLvl st.p.lvlIdx) ⟨st.p.used + 1 + intWidth (n.length : Int), n.length⟩)] ++
          viewsOf (st1.p.getLvl st1.p.lvlIdx).ad v ++ viewsOfF r := by
        rw [hl1]
        simp only [viewsOfF, view, evName, nameLevel, had]
        have := c2 st.p rfl
        unfold Parser.slice at this
        simp only at this
        rw [this]; simp
      rw [hlen, hvw]; exact hm
    · rw [p3.base.depth, p2.base.depth, d1]
    · intro i hi; exact p3.base.zeros i (by rw [p2.base.depth, d1]; exact hi)
    · have := p3.ad; rw [hi2] at this; rw [this, had]; have h2 := hl2a; rw [hi2] at h2; exact h2
    · have := p3.flags; rw [hi2] at this; exact this
end

end Binson
