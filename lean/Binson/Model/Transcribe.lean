/-
  Model-level programs over the parser and writer models: the decode→encode transcription of
  C10 (mirrors `transcribe_*` in harness/drive.c, which runs the same program on the real
  library), `binson_parser_to_writer` and `binson_writer_verify`.
-/
import Binson.Model.Api
import Binson.Model.Writer
namespace Binson

def spanBytes (p : Parser) (s : Option Span) : List UInt8 :=
  match s with
  | some sp => p.slice sp
  | none => []

mutual
def transcribeValue : Nat → Parser → Writer → Parser × Writer × Bool
  | 0, p, w => (p, w, false)
  | f+1, p, w =>
    match getType p with
    | .boolean => (p, (w.step (.bool (getBoolean p))).1, true)
    | .integer => (p, (w.step (.int (getInteger p))).1, true)
    | .double => (p, (w.step (.dbl (getDouble p))).1, true)
    | .string =>
      (match getStringBbuf p with
       | some s => (p, (w.step (.str (p.slice s))).1, true)
       | none => (p, w, false))
    | .bytes =>
      (match getBytesBbuf p with
       | some s => (p, (w.step (.bytes (p.slice s))).1, true)
       | none => (p, w, false))
    | .object =>
      let r := goIntoObject p
      if !r.2 then (r.1, w, false) else
      let w := (w.step .objBegin).1
      let t := transcribeItems f r.1 w true
      if !t.2.2 then t else
      let l := leaveObject t.1
      if !l.2 then (l.1, t.2.1, false) else (l.1, (t.2.1.step .objEnd).1, true)
    | .array =>
      let r := goIntoArray p
      if !r.2 then (r.1, w, false) else
      let w := (w.step .arrBegin).1
      let t := transcribeItems f r.1 w false
      if !t.2.2 then t else
      let l := leaveArray t.1
      if !l.2 then (l.1, t.2.1, false) else (l.1, (t.2.1.step .arrEnd).1, true)
    | _ => (p, w, false)
def transcribeItems : Nat → Parser → Writer → Bool → Parser × Writer × Bool
  | 0, p, w, _ => (p, w, false)
  | f+1, p, w, inObj =>
    let n := next p
    if !n.2 then (n.1, w, decide (n.1.err = .none)) else
    let p := n.1
    if inObj then
      let g := getName p
      match g.2 with
      | none => (g.1, w, false)
      | some s =>
        let w := (w.step (.str (g.1.slice s))).1
        let t := transcribeValue f g.1 w
        if !t.2.2 then t else transcribeItems f t.1 t.2.1 inObj
    else
      let t := transcribeValue f p w
      if !t.2.2 then t else transcribeItems f t.1 t.2.1 inObj
end

/-- the `tr` operation: reset the parser, transcribe the root container into `w` -/
def transcribe (p : Parser) (w : Writer) : Parser × Writer × Bool :=
  let r := reset p
  if !r.2 then (r.1, w, false) else
  let p := r.1
  let fuel := 2 * p.size + 4
  if p.ptype = 1 then
    let g := goIntoObject p
    if !g.2 then (g.1, w, false) else
    let w := (w.step .objBegin).1
    let t := transcribeItems fuel g.1 w true
    if !t.2.2 then t else
    let l := leaveObject t.1
    if !l.2 then (l.1, t.2.1, false) else (l.1, (t.2.1.step .objEnd).1, true)
  else
    let g := goIntoArray p
    if !g.2 then (g.1, w, false) else
    let w := (w.step .arrBegin).1
    let t := transcribeItems fuel g.1 w false
    if !t.2.2 then t else
    let l := leaveArray t.1
    if !l.2 then (l.1, t.2.1, false) else (l.1, (t.2.1.step .arrEnd).1, true)

/-- `binson_parser_to_writer` -/
def parserToWriter (p : Parser) (w : Writer) : Parser × Writer × Bool :=
  let r := getRaw p
  if !r.2.1 then (r.1, w, false) else
  let x := w.step (.raw (r.1.slice r.2.2))
  (r.1, x.1, x.2)

/-- an arbitrary parser object with `maxDepth` state entries, as found on the stack -/
def garbageParser (maxDepth : Nat) (f0 : Flags := .junk false false) : Parser :=
  { ptype := 77, depth := 200, maxDepth := maxDepth, size := 12345, used := 999, buf := #[], err := .eof,
    levels := (Array.replicate maxDepth { ctype := .bytes, val := .none, name := none, flags := .junk true true, ad := 99 : Level }).setIfInBounds 0
                { ctype := .bytes, val := .none, name := none, flags := f0, ad := 99 },
    cur := 50 }

/-- `binson_writer_verify`: a depth-10 parser over the bytes written so far -/
def writerVerify (w : Writer) : Bool :=
  let bytes := w.mem.extract 0 w.used
  let r := init (garbageParser 10) bytes 1
  if !r.2 then false else (verify r.1).2.1

end Binson
