/-
  Layer 5, part 1: the STATEMENT vocabulary of "streaming traversal is exactly as strict as
  verify" (C08). Nothing is proved here.
-/
import Binson.Model.Api
namespace Binson

/-- the calls an application makes while traversing: everything except init / reset / verify -/
def Op.IsNav : Op → Prop
  | .init _ _ => False
  | .reset => False
  | .verify => False
  | _ => True

/-- the top-level container has been left: the cursor is at the end of the buffer and the root
    level is closed (an array root keeps its state entry, `depth` stays 1, its array count is 0) -/
def RootClosed (p : Parser) : Prop :=
  p.used = p.size ∧ ((p.ptype = 1 ∧ p.depth = 0) ∨ (p.ptype = 2 ∧ p.depth = 1 ∧ (p.getLvl 0).ad = 0))

end Binson
