/-
  C08, part 3: one pass through the loop body on a BEGIN / END token, in EVERY scan mode, as a
  relation between the parser before and after (error flag, cursor, depth, levels).
-/
import Binson.Lemmas.StreamIter
namespace Binson

/-- the parser the classification stage hands on for a BEGIN token -/
theorem beginQ {p : Parser} (hs : Shape p) (he : p.err = .none) (ty : Ty) (q : Parser)
    (hq : q = p.setLvl p.lvlIdx { p.getLvl p.lvlIdx with ctype := ty }) :
    Shape q ∧ q.err = .none ∧ q.used = p.used ∧ q.depth = p.depth ∧ q.lvlIdx = p.lvlIdx ∧ q.maxDepth = p.maxDepth ∧
    q.levels.size = p.levels.size ∧
    (∀ j, q.getLvl j = if j = p.lvlIdx then { p.getLvl p.lvlIdx with ctype := ty } else p.getLvl j) := by
  have hli := hs.lvlIdx_lt
  obtain ⟨s1, _, _, s4, s5, s6, _, _, s9, _, s11⟩ :=
    setLvl_ok (p0 := p) hs (Parser.Frame.refl _) { p.getLvl p.lvlIdx with ctype := ty } hli (SpansOk_of_fields rfl rfl (hs.hsp he p.lvlIdx))
  have hg := getLvl_setLvl (p := p) { p.getLvl p.lvlIdx with ctype := ty } hli
  rw [← hq] at s1 s4 s5 s6 s9 s11 hg
  exact ⟨s1, s6.trans he, s4, s5, by unfold Parser.lvlIdx; rw [s5], s11, s9, hg⟩

/-- `{` where a value may come -/
theorem tok_objBegin {st : LoopSt} (sn : Option (List UInt8)) (oa od : Nat) (hs : Shape st.p) (he : st.p.err = .none)
    (rs : Bytes) (hrem : st.p.rem = 0x40 :: rs) (hf : ValPos (st.p.getLvl st.p.lvlIdx).flags)
    (R : Parser) (hR : R = (iter st sn oa od).1.p) :
    R.err ≠ .none ∨
    (R.err = .none ∧ R.used = st.p.used + 1 ∧ R.depth = st.p.depth + 1 ∧ st.p.depth < st.p.maxDepth ∧
      ∃ L', L'.ad = (st.p.getLvl st.p.lvlIdx).ad ∧ L'.name = (st.p.getLvl st.p.lvlIdx).name ∧
        ValAfter (st.p.getLvl st.p.lvlIdx).flags L'.flags ∧
        ∀ j, R.getLvl j = if j = st.p.depth then { (if st.p.depth = st.p.lvlIdx then L' else st.p.getLvl st.p.depth) with flags := .expField }
                          else if j = st.p.lvlIdx then L' else st.p.getLvl j) ∨
    (R.err = .none ∧ R.used = st.p.used ∧ R.depth = st.p.depth ∧
      ∃ L', (st.p.getLvl st.p.lvlIdx).Sim L' ∧ ∀ j, R.getLvl j = if j = st.p.lvlIdx then L' else st.p.getLvl j) := by
  have hcl := classify_objBegin hs he st.bc rs hrem
  obtain ⟨q1, q2, q3, q4, q5, q6, q7, q8⟩ := beginQ hs he .object _ rfl
  generalize st.p.setLvl st.p.lvlIdx { st.p.getLvl st.p.lvlIdx with ctype := .object } = q at hcl q1 q2 q3 q4 q5 q6 q7 q8
  have hX : q.getLvl q.lvlIdx = { st.p.getLvl st.p.lvlIdx with ctype := .object } := by rw [q5, q8]; simp
  have hob := objBlock_valpos (l := q.getLvl q.lvlIdx) (tok := .objBegin) (by rw [hX]; exact hf) rfl
  obtain ⟨lv', scan', st', hsim, hit⟩ := iter_p_objBegin sn oa od hcl hob
  rw [← hR] at hit
  have hli : q.lvlIdx < q.levels.size := q1.lvlIdx_lt
  obtain ⟨a1, a2, a3⟩ := valAfter_of (L := st.p.getLvl st.p.lvlIdx) (X := q.getLvl q.lvlIdx) hf (by rw [hX]) (by rw [hX]) (by rw [hX]) hsim
  rcases caseObjBegin_res st' q lv' q.lvlIdx scan' q1 q2 hli R hit with h | ⟨r1, r2, r3, r4, r5⟩ | ⟨r1, r2, r3, r5⟩
  · exact Or.inl h
  · refine Or.inr (Or.inl ⟨r1, by rw [r2, q3], by rw [r3, q4], by rw [← q4, ← q6]; exact r4, lv', a1, a2, a3, ?_⟩)
    intro j
    rw [r5 j, q4, q5]
    by_cases h1 : j = st.p.depth
    · rw [if_pos h1, if_pos h1]
      by_cases h2 : st.p.depth = st.p.lvlIdx
      · rw [if_pos h2, if_pos h2]
      · rw [if_neg h2, if_neg h2, q8, if_neg h2]
    · rw [if_neg h1, if_neg h1]
      by_cases h2 : j = st.p.lvlIdx
      · rw [if_pos h2, if_pos h2]
      · rw [if_neg h2, if_neg h2, q8, if_neg h2]
  · refine Or.inr (Or.inr ⟨r1, by rw [r2, q3], by rw [r3, q4],
      (if lv'.flags = .expField then ({ lv' with flags := .expValue } : Level) else lv'), ⟨?_, ?_, ?_⟩, ?_⟩)
    · show (if lv'.flags = .expField then ({ lv' with flags := .expValue } : Level) else lv').ad = _
      split <;> exact a1
    · show (if lv'.flags = .expField then ({ lv' with flags := .expValue } : Level) else lv').name = _
      split <;> exact a2
    · have := flagsSim_unconsumed a3
      have e : (if lv'.flags = .expField then ({ lv' with flags := .expValue } : Level) else lv').flags =
          (if lv'.flags = .expField then .expValue else lv'.flags) := by split <;> rfl
      rw [e]; exact this
    · intro j
      rw [r5 j, q5]
      by_cases h2 : j = st.p.lvlIdx
      · rw [if_pos h2, if_pos h2]
      · rw [if_neg h2, if_neg h2, q8, if_neg h2]

/-- `[` where a value may come -/
theorem tok_arrBegin {st : LoopSt} (sn : Option (List UInt8)) (oa od : Nat) (hs : Shape st.p) (he : st.p.err = .none)
    (rs : Bytes) (hrem : st.p.rem = 0x42 :: rs) (hf : ValPos (st.p.getLvl st.p.lvlIdx).flags)
    (R : Parser) (hR : R = (iter st sn oa od).1.p) :
    R.err ≠ .none ∨
    (R.err = .none ∧ R.used = st.p.used + 1 ∧ R.depth = st.p.depth ∧ (st.p.getLvl st.p.lvlIdx).ad < 255 ∧
      ∃ L', L'.ad = (st.p.getLvl st.p.lvlIdx).ad + 1 ∧ L'.name = (st.p.getLvl st.p.lvlIdx).name ∧ L'.flags = .arr1 ∧
        ∀ j, R.getLvl j = if j = st.p.lvlIdx then L' else st.p.getLvl j) ∨
    (R.err = .none ∧ R.used = st.p.used ∧ R.depth = st.p.depth ∧
      ∃ L', (st.p.getLvl st.p.lvlIdx).Sim L' ∧ ∀ j, R.getLvl j = if j = st.p.lvlIdx then L' else st.p.getLvl j) := by
  have hcl := classify_arrBegin hs he st.bc rs hrem
  obtain ⟨q1, q2, q3, q4, q5, q6, q7, q8⟩ := beginQ hs he .array _ rfl
  generalize st.p.setLvl st.p.lvlIdx { st.p.getLvl st.p.lvlIdx with ctype := .array } = q at hcl q1 q2 q3 q4 q5 q6 q7 q8
  have hX : q.getLvl q.lvlIdx = { st.p.getLvl st.p.lvlIdx with ctype := .array } := by rw [q5, q8]; simp
  have hob := objBlock_valpos (l := q.getLvl q.lvlIdx) (tok := .arrBegin) (by rw [hX]; exact hf) rfl
  obtain ⟨lv', scan', st', hsim, hit⟩ := iter_p_arrBegin sn oa od hcl hob
  rw [← hR] at hit
  have hli : q.lvlIdx < q.levels.size := q1.lvlIdx_lt
  obtain ⟨a1, a2, a3⟩ := valAfter_of (L := st.p.getLvl st.p.lvlIdx) (X := q.getLvl q.lvlIdx) hf (by rw [hX]) (by rw [hX]) (by rw [hX]) hsim
  rcases caseArrBegin_res st' q lv' q.lvlIdx scan' q2 hli R hit with h | ⟨r1, r2, r3, r4, r5⟩ | ⟨r1, r2, r3, r5⟩
  · exact Or.inl h
  · refine Or.inr (Or.inl ⟨r1, by rw [r2, q3], by rw [r3, q4], by rw [← a1]; exact r4, arrInnerLevel' lv', ?_, a2, rfl, ?_⟩)
    · show lv'.ad + 1 = _; rw [a1]
    · intro j
      rw [r5 j, q5]
      by_cases h2 : j = st.p.lvlIdx
      · rw [if_pos h2, if_pos h2]
      · rw [if_neg h2, if_neg h2, q8, if_neg h2]
  · refine Or.inr (Or.inr ⟨r1, by rw [r2, q3], by rw [r3, q4],
      (if lv'.flags = .expField then ({ lv' with flags := .expValue } : Level) else lv'), ⟨?_, ?_, ?_⟩, ?_⟩)
    · show (if lv'.flags = .expField then ({ lv' with flags := .expValue } : Level) else lv').ad = _
      split <;> exact a1
    · show (if lv'.flags = .expField then ({ lv' with flags := .expValue } : Level) else lv').name = _
      split <;> exact a2
    · have := flagsSim_unconsumed a3
      have e : (if lv'.flags = .expField then ({ lv' with flags := .expValue } : Level) else lv').flags =
          (if lv'.flags = .expField then .expValue else lv'.flags) := by split <;> rfl
      rw [e]; exact this
    · intro j
      rw [r5 j, q5]
      by_cases h2 : j = st.p.lvlIdx
      · rw [if_pos h2, if_pos h2]
      · rw [if_neg h2, if_neg h2, q8, if_neg h2]

theorem ArrSim.eq_of_expField {lv lv' : Level} (h : ArrSim lv lv') (hf : lv'.flags = .expField) : lv' = lv := by
  rcases h with h | ⟨_, h | h⟩
  · exact h
  · rw [h] at hf; cases hf
  · rw [h] at hf; cases hf

/-- `}` -/
theorem tok_objEnd {st : LoopSt} (sn : Option (List UInt8)) (oa od : Nat) (hs : Shape st.p) (he : st.p.err = .none)
    (rs : Bytes) (hrem : st.p.rem = 0x41 :: rs) (R : Parser) (hR : R = (iter st sn oa od).1.p) :
    R.err ≠ .none ∨
    ((st.p.getLvl st.p.lvlIdx).flags = .expField ∧ R.err = .none ∧ R.used = st.p.used ∧ R.depth = st.p.depth ∧
      ∀ j, R.getLvl j = st.p.getLvl j) ∨
    ((st.p.getLvl st.p.lvlIdx).flags = .expField ∧ 1 < st.p.depth ∧ R.err = .none ∧ R.used = st.p.used + 1 ∧
      R.depth = st.p.depth - 1 ∧ ∀ j, R.getLvl j = if j = st.p.lvlIdx then Level.zero else st.p.getLvl j) ∨
    ((st.p.getLvl st.p.lvlIdx).flags = .expField ∧ st.p.depth = 1 ∧ R.err = .none ∧ R.used = st.p.used + 1 ∧
      R.used = R.size ∧ R.depth = 0) := by
  have hcl := classify_objEnd hs he st.bc rs hrem
  obtain ⟨lv', scan', st', hsim, hit⟩ := iter_p_objEnd sn oa od hcl
  rw [← hR] at hit
  rcases caseObjEnd_res st' st.p lv' st.p.lvlIdx scan' od he hs.lvlIdx_lt hs.hcur R hit with
    h | ⟨r0, r1, r2, r3, r5⟩ | ⟨r0, r00, r1, r2, r3, r5⟩ | ⟨r0, r00, r1, r2, r3, r4⟩
  · exact Or.inl h
  · have e := hsim.eq_of_expField r0
    rw [e] at r0 r5
    refine Or.inr (Or.inl ⟨r0, r1, r2, r3, ?_⟩)
    intro j
    rw [r5 j]
    split
    · rename_i h; rw [h]
    · rfl
  · have e := hsim.eq_of_expField r0
    rw [e] at r0
    exact Or.inr (Or.inr (Or.inl ⟨r0, r00, r1, r2, r3, r5⟩))
  · have e := hsim.eq_of_expField r0
    rw [e] at r0
    exact Or.inr (Or.inr (Or.inr ⟨r0, r00, r1, r2, r3, r4⟩))

/-- the flags word is one the loop itself has written -/
def NoJunk (f : Flags) : Prop := ∀ o a, f ≠ .junk o a

theorem ArrSim.sim {lv lv' : Level} (h : ArrSim lv lv') (hj : NoJunk lv.flags) : lv.Sim lv' := by
  rcases h with h | ⟨h0, h⟩
  · rw [h]; exact ⟨rfl, rfl, Or.inl rfl⟩
  · have hL : lv.flags = .arr1 ∨ lv.flags = .arr2 := by
      rcases inArray_cases h0 with h | h | ⟨o, h⟩
      · exact Or.inl h
      · exact Or.inr h
      · exact absurd h (hj o true)
    rcases h with h | h <;> rw [h]
    · exact ⟨rfl, rfl, Or.inr ⟨hL, Or.inl rfl⟩⟩
    · exact ⟨rfl, rfl, Or.inr ⟨hL, Or.inr rfl⟩⟩

theorem ArrSim.inArray {lv lv' : Level} (h : ArrSim lv lv') (hf : lv'.flags.inArray = true) : lv.flags.inArray = true := by
  rcases h with h | ⟨h0, _⟩
  · rw [← h]; exact hf
  · exact h0

theorem ArrSim.ad {lv lv' : Level} (h : ArrSim lv lv') : lv'.ad = lv.ad ∧ lv'.name = lv.name := by
  rcases h with h | ⟨_, h | h⟩ <;> rw [h] <;> exact ⟨rfl, rfl⟩

/-- `]` -/
theorem tok_arrEnd {st : LoopSt} (sn : Option (List UInt8)) (oa od : Nat) (hs : Shape st.p) (he : st.p.err = .none)
    (rs : Bytes) (hrem : st.p.rem = 0x43 :: rs) (hj : NoJunk (st.p.getLvl st.p.lvlIdx).flags)
    (R : Parser) (hR : R = (iter st sn oa od).1.p) :
    R.err ≠ .none ∨
    ((st.p.getLvl st.p.lvlIdx).flags.inArray = true ∧ R.err = .none ∧ R.used = st.p.used ∧ R.depth = st.p.depth ∧
      ∃ L', (st.p.getLvl st.p.lvlIdx).Sim L' ∧ ∀ j, R.getLvl j = if j = st.p.lvlIdx then L' else st.p.getLvl j) ∨
    ((st.p.getLvl st.p.lvlIdx).flags.inArray = true ∧ 1 ≤ (st.p.getLvl st.p.lvlIdx).ad ∧
      ¬ ((st.p.getLvl st.p.lvlIdx).ad = 1 ∧ st.p.ptype = 2 ∧ st.p.depth = 1) ∧
      R.err = .none ∧ R.used = st.p.used + 1 ∧ R.depth = st.p.depth ∧
      ∃ L', L'.ad = (st.p.getLvl st.p.lvlIdx).ad - 1 ∧ L'.name = (st.p.getLvl st.p.lvlIdx).name ∧
        L'.flags = (if (st.p.getLvl st.p.lvlIdx).ad - 1 = 0 then .expField else .arr1) ∧
        ∀ j, R.getLvl j = if j = st.p.lvlIdx then L' else st.p.getLvl j) ∨
    ((st.p.getLvl st.p.lvlIdx).flags.inArray = true ∧ (st.p.getLvl st.p.lvlIdx).ad = 1 ∧ st.p.ptype = 2 ∧ st.p.depth = 1 ∧
      R.err = .none ∧ R.used = st.p.used + 1 ∧ R.used = R.size) := by
  have hcl := classify_arrEnd hs he st.bc rs hrem
  obtain ⟨lv', scan', st', hsim, hit⟩ := iter_p_arrEnd sn oa od hcl
  rw [← hR] at hit
  obtain ⟨a1, a2⟩ := hsim.ad
  rcases caseArrEnd_res st' st.p lv' st.p.lvlIdx scan' oa od he hs.lvlIdx_lt R hit with
    h | ⟨r0, r1, r2, r3, r5⟩ | ⟨r0, r00, r01, r1, r2, r3, r5⟩ | ⟨r0, r00, r01, r02, r1, r2, r3⟩
  · exact Or.inl h
  · exact Or.inr (Or.inl ⟨hsim.inArray r0, r1, r2, r3, lv', hsim.sim hj, r5⟩)
  · rw [a1] at r00 r01
    refine Or.inr (Or.inr (Or.inl ⟨hsim.inArray r0, r00, r01, r1, r2, r3, arrEndLevel lv', ?_, a2, ?_, r5⟩))
    · show lv'.ad - 1 = _; rw [a1]
    · show (if lv'.ad - 1 = 0 then Flags.expField else Flags.arr1) = _; rw [a1]
  · rw [a1] at r00
    exact Or.inr (Or.inr (Or.inr ⟨hsim.inArray r0, r00, r01, r02, r1, r2, r3⟩))

/-- a string where a field name is expected -/
theorem tok_name {st : LoopSt} (sn : Option (List UInt8)) (oa od : Nat) (hs : Shape st.p) (he : st.p.err = .none)
    (span : Span) (bc : Nat) (hcl : classify st.p st.bc = ⟨.string, span, bc, { st.p with used := st.p.used + bc }⟩)
    (hsp : span.off + span.len ≤ st.p.size) (hf : (st.p.getLvl st.p.lvlIdx).flags = .expField)
    (R : Parser) (hR : R = (iter st sn oa od).1.p) :
    R.err ≠ .none ∨
    (R.err = .none ∧ R.used = st.p.used ∧ R.depth = st.p.depth ∧ ∀ j, R.getLvl j = st.p.getLvl j) ∨
    (nameOrdErr st.p (st.p.getLvl st.p.lvlIdx) span = false ∧ R.err = .none ∧ R.used = st.p.used + bc ∧ R.depth = st.p.depth ∧
      ∀ j, R.getLvl j = if j = st.p.lvlIdx then nameLevel (st.p.getLvl st.p.lvlIdx) span else st.p.getLvl j) := by
  obtain ⟨scan', st', hit⟩ := iter_p_fieldName sn oa od hcl hf
  rw [← hR] at hit
  have hspl := hs.hsp he st.p.lvlIdx
  rcases caseFieldName_res st' { st.p with used := st.p.used + bc } (st.p.getLvl st.p.lvlIdx) st.p.lvlIdx scan' span bc sn oa od
    he hs.lvlIdx_lt (by show _ ≤ st.p.buf.size; rw [hs.hbs]; exact hsp)
    (fun pn hpn => by show _ ≤ st.p.buf.size; rw [hs.hbs]; exact hspl.1 pn hpn) R hit with h | ⟨r1, r2, r3, r5⟩ | ⟨r0, r1, r2, r3, r5⟩
  · exact Or.inl h
  · refine Or.inr (Or.inl ⟨r1, ?_, r3, ?_⟩)
    · rw [r2]; show st.p.used + bc - bc = _; omega
    · intro j
      rw [r5 j]
      split
      · rename_i h
        rw [h]
        show _ = ({ st.p with used := st.p.used + bc } : Parser).getLvl st.p.lvlIdx
        show _ = st.p.getLvl st.p.lvlIdx
        rw [← hf]
      · rfl
  · exact Or.inr (Or.inr ⟨r0, r1, r2, r3, r5⟩)

/-- a scalar value token where a value may come -/
theorem tok_scalar {st : LoopSt} (sn : Option (List UInt8)) (oa od : Nat) (hs : Shape st.p) (he : st.p.err = .none)
    (tok : Tok) (span : Span) (bc : Nat) (hcl : classify st.p st.bc = ⟨tok, span, bc, { st.p with used := st.p.used + bc }⟩)
    (hsc : tok.isScalar = true) (hsp : span.off + span.len ≤ st.p.size) (hf : ValPos (st.p.getLvl st.p.lvlIdx).flags)
    (R : Parser) (hR : R = (iter st sn oa od).1.p) :
    R.err ≠ .none ∨
    ((tok = .integer → intBoundsOk (parseIntVal st.p span) span.len = true) ∧
      R.err = .none ∧ R.used = st.p.used + bc ∧ R.depth = st.p.depth ∧
      ∃ L', L'.ad = (st.p.getLvl st.p.lvlIdx).ad ∧ L'.name = (st.p.getLvl st.p.lvlIdx).name ∧
        ValAfter (st.p.getLvl st.p.lvlIdx).flags L'.flags ∧
        ∀ j, R.getLvl j = if j = st.p.lvlIdx then L' else st.p.getLvl j) := by
  have hval : tok.isValue = true := by cases tok <;> simp_all [Tok.isScalar, Tok.isValue]
  have hob := objBlock_valpos (l := ({ st.p with used := st.p.used + bc } : Parser).getLvl ({ st.p with used := st.p.used + bc } : Parser).lvlIdx)
    (tok := tok) hf hval
  obtain ⟨lv', scan', st', hsim, hit⟩ := iter_p_scalar sn oa od hcl hsc hob
  rw [← hR] at hit
  obtain ⟨a1, a2, a3⟩ := valAfter_of (L := st.p.getLvl st.p.lvlIdx) (X := st.p.getLvl st.p.lvlIdx) hf rfl rfl rfl hsim
  rcases caseScalar_res st' tok { st.p with used := st.p.used + bc } lv' st.p.lvlIdx scan' span he hs.lvlIdx_lt
    (by show _ ≤ st.p.buf.size; rw [hs.hbs]; exact hsp) hsc R hit with h | ⟨r0, r1, r2, r3, r5⟩
  · exact Or.inl h
  · obtain ⟨n1, n2, n3⟩ := scalarStore_fields tok lv' span { st.p with used := st.p.used + bc }
    have r0' : tok = .integer → intBoundsOk (parseIntVal st.p span) span.len = true := by
      intro h
      rw [← parseIntVal_buf (p := st.p) (q := { st.p with used := st.p.used + bc }) rfl span]
      exact r0 h
    exact Or.inr ⟨r0', r1, r2, r3, _, n3.trans a1, n1.trans a2, by rw [n2]; exact a3, r5⟩

end Binson
