/-
  Traversal programs, part 7: `Binson::deserialize` returns normally EXACTLY when
  `binson_parser_verify` accepts the bytes (arbitrary input), from the depth-balance of part 6.
-/
import Binson.Lemmas.WalkBal
import Binson.Lemmas.WalkDesTop
namespace Binson

/-- if `Binson::deserialize(binson_parser*)` returns normally on a shaped object parser, the buffer
    is the encoding of a well-formed object document that fits its depth configuration -/
theorem cppDesP_accept {buf : Array UInt8} {md : Nat} (W : Parser) (hs : Shape W) (hbuf : W.buf = buf) (hpt : W.ptype = 1)
    (hmd : W.maxDepth = md) (hmd255 : md ≤ 255) (fs : Fields) (h : cppDeserializeP W = .ok fs) :
    Accept buf md 1 := by
  unfold cppDeserializeP at h
  simp only at h
  by_cases hr : (reset W).2 = true
  · simp only [hr, Bool.not_true, Bool.false_eq_true, if_false] at h
    have hsz : W.size = buf.size := by rw [← hs.hbs, hbuf]
    obtain ⟨h2, hb⟩ := reset_accept_inv W hs.hbs hr
    have hb' : buf.getD 0 0 = 0x40 ∧ buf.getD (buf.size - 1) 0 = 0x41 := by
      rcases hb with ⟨_, b, c⟩ | ⟨a, _, _⟩
      · unfold Parser.byte at b c
        rw [hbuf] at b c
        rw [hsz] at c
        exact ⟨b, c⟩
      · rw [hpt] at a; cases a
    rw [hsz] at h2
    obtain ⟨_, hF⟩ := reset_to_fresh hs hbuf hpt hmd 0x40 0x41 (Or.inl ⟨rfl, rfl, rfl⟩) h2 hb'.1 hb'.2
    have hI : Inv buf md 1 (reset W).1 := hF.inv hmd255 h2 (Or.inl ⟨rfl, hb'.1⟩)
    have hrem := fresh_rem hF h2
    rw [hb'.1] at hrem
    by_cases hg : (goIntoObject (reset W).1).2 = true
    · simp only [hg, Bool.not_true, Bool.false_eq_true, if_false] at h
      obtain ⟨g1, g2⟩ := walk_goIntoObject_true _ hF.shape hF.err _ hrem hg
      have gI : Inv buf md 1 (goIntoObject (reset W).1).1 := advance_inv _ .enterObj none hI
      cases hc : cppDesItems (2 * (reset W).1.size + 4) (goIntoObject (reset W).1).1 .nil with
      | error e => rw [hc] at h; cases h
      | ok r =>
        obtain ⟨fs', p2⟩ := r
        rw [hc] at h
        simp only at h
        have hd0 : (reset W).1.depth = 0 := hF.depth
        rcases (walk_bal (buf := buf) (md := md) _).2.1 _ _ _ _ 1 hc ⟨gI, g1, by rw [g2, hd0]⟩ (Nat.le_refl _) with hacc | ⟨i2, e2, d2⟩
        · exact hacc
        · by_cases hl : (leaveObject p2).2 = true
          · obtain ⟨_, l1, l2, l3⟩ := walk_leaveObject_true p2 i2.shape i2.hpt (by omega) hl
            have lI := leaveObject_inv p2 i2
            rcases lI.res with hh | hZF | ⟨gs, hZ⟩ | ⟨_, hacc⟩
            · exact absurd l1 hh
            · have := hZF.used; omega
            · exfalso
              have := hZ.depth
              have hne := hZ.ne
              cases gs with
              | nil => exact hne rfl
              | cons g rest => simp at this; omega
            · exact hacc
          · simp only [hl, Bool.not_false, if_true] at h; cases h
    · simp only [hg, Bool.not_false, if_true] at h; cases h
  · simp only [hr, Bool.not_false, if_true] at h; cases h

/-- `cppDes_iff`, direction (⇒): a normal return means verify accepts the bytes -/
theorem cppDes_verifies (bytes : Array UInt8) (hsz : bytes.size < 2 ^ 63) (fs : Fields) (h : cppDeserialize bytes = .ok fs) :
    (init (garbageParser 10) bytes 1).2 = true ∧ (verify (init (garbageParser 10) bytes 1).1).2.1 = true := by
  unfold cppDeserialize at h
  simp only at h
  by_cases hi : (init (garbageParser 10) bytes 1).2 = true
  · simp only [hi, Bool.not_true, Bool.false_eq_true, if_false] at h
    obtain ⟨h2, ht⟩ := init_accept (garbageParser 10) bytes 1 hi
    have hF : Fresh (init (garbageParser 10) bytes 1).1 bytes 1 10 := by
      rcases ht with ⟨a, b, c⟩ | ⟨a, _, _⟩
      · exact (init_fresh (garbageParser 10) walk_garbage_alloc bytes 1 0x40 0x41 (Or.inl ⟨a, rfl, rfl⟩) h2 hsz b c).2
      · cases a
    obtain ⟨v, hw, henc, hk⟩ := cppDesP_accept (buf := bytes) (md := 10) _ hF.shape hF.buf hF.ptype hF.maxDepth (by decide) fs h
    refine (verify_iff (garbageParser 10) walk_garbage_alloc (by decide) bytes hsz .object).mpr ⟨v, ?_, henc⟩
    unfold wfDoc
    rcases hk with ⟨_, ⟨fs', rfl⟩, hf⟩ | ⟨hc, _⟩
    · have hf' : fits 10 255 (.obj fs') = true := hf
      have hmd : (garbageParser 10).maxDepth = 10 := rfl
      simp [hw, rootKindOk, hmd, hf']
    · cases hc
  · simp only [hi, Bool.not_false, if_true] at h; cases h

/-- **`Binson::deserialize` returns normally exactly when verify accepts** (arbitrary bytes; the
    depth-10 parser of overloads 1 and 2) -/
theorem cppDes_iff (bytes : Array UInt8) (hsz : bytes.size < 2 ^ 63) :
    (∃ fs, cppDeserialize bytes = .ok fs) ↔
    ((init (garbageParser 10) bytes 1).2 = true ∧ (verify (init (garbageParser 10) bytes 1).1).2.1 = true) :=
  ⟨fun ⟨fs, h⟩ => cppDes_verifies bytes hsz fs h, cppDes_of_verify' bytes hsz⟩

/-- consequently a normal return yields exactly the decoded tree of a well-formed document, and
    serializing it reproduces the input -/
theorem cppDes_ok_canonical (bytes : Array UInt8) (hsz : bytes.size < 2 ^ 63) (fs : Fields) (h : cppDeserialize bytes = .ok fs) :
    wfDoc .object 10 (.obj fs) = true ∧ encode (.obj fs) = bytes.toList ∧ cppSerialize fs = bytes.toList := by
  obtain ⟨hi, hv⟩ := cppDes_verifies bytes hsz fs h
  obtain ⟨fs', h1, h2, h3, h4⟩ := cppDes_of_verify bytes hsz hi hv
  rw [h] at h1
  simp only [Except.ok.injEq] at h1
  subst h1
  exact ⟨h3, h4, h2⟩

end Binson

namespace Binson

/-- **overload 3 on a parser that has been used before, arbitrary bytes**: on any shaped object
    parser (whatever its history), `Binson::deserialize(binson_parser*)` returns normally exactly
    when its buffer is the encoding of a well-formed object document fitting its depth
    configuration - and then it returns that document's tree -/
theorem cppDesP_iff (W : Parser) (hs : Shape W) (hpt : W.ptype = 1) (hmd255 : W.maxDepth ≤ 255) (fs : Fields) :
    cppDeserializeP W = .ok fs ↔ (wfDoc .object W.maxDepth (.obj fs) = true ∧ encode (.obj fs) = W.buf.toList) := by
  constructor
  · intro h
    obtain ⟨v, hw, henc, hk⟩ := cppDesP_accept (buf := W.buf) (md := W.maxDepth) W hs rfl hpt rfl hmd255 fs h
    rcases hk with ⟨_, ⟨fs', rfl⟩, hf⟩ | ⟨hc, _⟩
    · have hwf : wfDoc .object W.maxDepth (.obj fs') = true := by
        unfold wfDoc; simp [hw, rootKindOk, hf]
      have hb : W.buf = (encode (.obj fs')).toArray := by rw [henc]
      have := cppDesP_history_free W hs fs' W.maxDepth hb hpt rfl hmd255 hwf
      rw [h] at this
      simp only [Except.ok.injEq] at this
      subst this
      exact ⟨hwf, henc⟩
    · cases hc
  · rintro ⟨hwf, henc⟩
    exact cppDesP_history_free W hs fs W.maxDepth (by rw [henc]) hpt rfl hmd255 hwf

end Binson
