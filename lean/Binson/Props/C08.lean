/-
  C08 — streaming traversal is exactly as strict as verify.

  ⇒ (`c08_traversal_ok_implies_verify`): for ARBITRARY bytes and ANY sequence of navigation calls
  whatsoever — protocol-following or not; next, next_ensure, lookups, go_into_*, leave_*, get_raw,
  getters, in any order, return values ignored — if at the end the error flag is NONE and the root
  container has been closed with the cursor at the end of the buffer, then verify accepts the same
  bytes. Stronger than the property asks (which restricts to protocol-following complete traversals
  whose calls all succeeded): the validation done by the token loop does not depend on the scan mode.
  Proof: the zipper invariant of the verify-soundness proof, generalised to every scan mode
  (Lemmas/Stream*.lean).

  ⇐ (`c08_verify_implies_traversal_ok`): verify accepts ⇒ the bytes are `encode v` of a well-formed
  document (`verify_iff`), and then EVERY protocol-following call sequence — any mix of entering,
  skipping, field lookups, early leaves and raw extraction, of any length — runs with the error flag NONE
  after every call, every go_into_* / leave_* returning true, get_raw on a container returning true, and
  when the root has been left the parser is `RootClosed` (so ⇒ applies to the same run). This is the
  navigation refinement read for "no error / successful calls" (Lemmas/NavCor.lean).
-/
import Binson.Lemmas.Stream
import Binson.Lemmas.NavCor
import Binson.Model.Transcribe
namespace Binson

theorem c08_traversal_ok_implies_verify (g : Parser) (ha : Alloc g) (hmd : g.maxDepth ≤ 255) (buf : Array UInt8)
    (hsz : buf.size < 2 ^ 63) (root : Root) (hi : (init g buf (rootNum root)).2 = true)
    (ops : List Op) (hnav : ∀ op ∈ ops, op.IsNav)
    (herr : (run (init g buf (rootNum root)).1 ops).err = .none)
    (hclosed : RootClosed (run (init g buf (rootNum root)).1 ops)) :
    (verify (init g buf (rootNum root)).1).2.1 = true :=
  stream_sound g ha hmd buf hsz root hi ops hnav herr hclosed

/-- contrapositive, as an application reads it: on bytes verify rejects, NO sequence of navigation
    calls ends with the root closed and the error flag clear — a single check of the error flag after
    leaving the root gives verify's verdict -/
theorem c08_rejected_bytes_never_pass (g : Parser) (ha : Alloc g) (hmd : g.maxDepth ≤ 255) (buf : Array UInt8)
    (hsz : buf.size < 2 ^ 63) (root : Root) (hi : (init g buf (rootNum root)).2 = true)
    (hv : (verify (init g buf (rootNum root)).1).2.1 = false)
    (ops : List Op) (hnav : ∀ op ∈ ops, op.IsNav) (hclosed : RootClosed (run (init g buf (rootNum root)).1 ops)) :
    (run (init g buf (rootNum root)).1 ops).err ≠ .none := by
  intro herr
  have := stream_sound g ha hmd buf hsz root hi ops hnav herr hclosed
  rw [hv] at this; cases this


/-- ⇐: on bytes verify accepts, every protocol-following traversal succeeds -/
theorem c08_verify_implies_traversal_ok (g : Parser) (ha : Alloc g) (hmd : g.maxDepth ≤ 255) (root : Root) (buf : Array UInt8)
    (hsz : buf.size < 2 ^ 63) (hi : (init g buf (rootNum root)).2 = true)
    (hv : (verify (init g buf (rootNum root)).1).2.1 = true) :
    ∃ v, buf = (encode v).toArray ∧ wfDoc root g.maxDepth v = true ∧
      (verify (init g buf (rootNum root)).1).1 = (init g buf (rootNum root)).1 ∧
      ∀ ops : List COp,
        NavOk (init g buf (rootNum root)).1 (Cursor.start root v) ops ∧
        ∀ p c, (p, c) = navRun ((init g buf (rootNum root)).1, Cursor.start root v) ops →
          p.err = .none ∧ p.fault = false ∧ p.oof = false ∧
          (c.done = true → RootClosed p) ∧
          ∀ op, c.allowed op = true →
            (machNav p op).1.err = .none ∧
            ((op = .enterObj ∨ op = .enterArr ∨ op = .leaveObj ∨ op = .leaveArr) → (machNav p op).2.1 = true) ∧
            (op = .raw → ∀ n, c.cur = some n → (n.item.ty = .object ∨ n.item.ty = .array) →
              (machNav p op).2.1 = true ∧ (machNav p op).2.2 = some ⟨n.item.start, n.item.len⟩) :=
  protocol_run_ok g ha hmd root buf hsz hi hv

/-- non-vacuity: `{"a":true}` entered, one `next`, left: root closed, no error -/
example : let p := run (init (garbageParser 2) #[0x40, 0x14, 0x01, 0x61, 0x44, 0x41] 1).1 [.goIntoObject, .next, .leaveObject]
    p.err = .none ∧ RootClosed p := by
  unfold RootClosed; decide

end Binson
