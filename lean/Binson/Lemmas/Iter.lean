/-
  Layer 1, part 3: one iteration of the token loop preserves the shape invariant, consumes at
  least one byte when it continues, and calls the callback at most once.
-/
import Binson.Lemmas.Classify
namespace Binson

/-- what no iteration changes -/
def Parser.Frame (p q : Parser) : Prop :=
  q.size = p.size ∧ q.buf = p.buf ∧ q.maxDepth = p.maxDepth ∧ q.ptype = p.ptype ∧ q.levels.size = p.levels.size

theorem Parser.Frame.refl (p : Parser) : p.Frame p := ⟨rfl, rfl, rfl, rfl, rfl⟩
theorem Parser.Frame.trans {p q r : Parser} (a : p.Frame q) (b : q.Frame r) : p.Frame r := by
  obtain ⟨a1, a2, a3, a4, a5⟩ := a; obtain ⟨b1, b2, b3, b4, b5⟩ := b
  exact ⟨b1.trans a1, b2.trans a2, b3.trans a3, b4.trans a4, b5.trans a5⟩
theorem Parser.SameFrame.toFrame {p q : Parser} (a : p.SameFrame q) : p.Frame q :=
  ⟨a.2.2.2.1, a.2.2.2.2.1, a.2.2.1, a.1, a.2.2.2.2.2.2⟩

theorem Shape.update {p q : Parser} (h : Shape p) (fr : p.Frame q)
    (hf : q.fault = false) (ho : q.oof = false)
    (hdp : q.depth ≤ q.maxDepth) (hcur : q.cur = q.lvlIdx) (hus : q.used ≤ q.size)
    (hsp : q.err = .none → ∀ i, (q.getLvl i).SpansOk q.size) : Shape q := by
  obtain ⟨f1, f2, f3, f4, f5⟩ := fr
  exact ⟨by rw [f5, f3]; exact h.hlv, by rw [f3]; exact h.hmd, hdp, hcur, hus, by rw [f2, f1]; exact h.hbs, by rw [f1]; exact h.hsz, hf, ho, hsp⟩

/-- result of an iteration stage, relative to the parser `p0` the iteration started from -/
structure StageOk (p0 : Parser) (ev0 : List Event) (u : Nat) (r : LoopSt × Out) : Prop where
  shape : Shape r.1.p
  frame : p0.Frame r.1.p
  ev : r.1.ev.length ≤ ev0.length + 1
  go : r.2 = .cont ∨ r.2 = .stop → r.1.p.err = .none ∧ r.1.p.used = u

theorem has_mono {s : Option Scan} {l1 l2 : List Scan} (hsub : ∀ x ∈ l2, x ∈ l1) (h : has s l1 = false) : has s l2 = false := by
  cases s with
  | none => rfl
  | some x =>
    simp only [has] at h ⊢
    cases hc : l2.contains x
    · rfl
    · have : x ∈ l2 := by simpa using hc
      have : l1.contains x = true := by simpa using hsub x this
      rw [this] at h; cases h

/-- `finish`: write the level back, error test, callback, proceed test -/
theorem finish_spec (st : LoopSt) (tok : Tok) {p0 p : Parser} (hp : Shape p) (fr : p0.Frame p)
    (lv : Level) (li : Nat) (hli : li < p.levels.size) (hl : lv.SpansOk p.size) (scan : Option Scan) (force : Bool) :
    StageOk p0 st.ev p.used (finish st tok p lv li scan force) ∧
    (force = false → has scan [.verify, .leaveObj, .value, .leaveArr] = false → (finish st tok p lv li scan force).2 ≠ .cont) ∧
    (p.err ≠ .none → (finish st tok p lv li scan force).2 = .ret false) := by
  have hs := hp.setLvl lv hli hl
  have f := setLvl_fields (p := p) lv hli
  simp only at f
  obtain ⟨f1, f2, f3, f4, f5, f6, f7, f8, f9, f11, f12⟩ := f
  have frs : p0.Frame (p.setLvl li lv) := fr.trans ⟨f4, f6, f3, f1, f12⟩
  unfold finish
  simp only
  generalize p.setLvl li lv = q at hs f1 f2 f3 f4 f5 f6 f7 f8 f9 f11 f12 frs
  by_cases he : q.err = .none
  · rw [if_neg (by simp [he])]
    refine ⟨?_, ?_, ?_⟩
    · split
      · exact ⟨hs, frs, by simp, fun _ => ⟨he, f5⟩⟩
      · exact ⟨hs, frs, by simp, fun _ => ⟨he, f5⟩⟩
    · intro hf hh
      simp [hf, hh]
    · intro hpe; exact absurd (f7 ▸ he) hpe
  · rw [if_pos (by simpa using he)]
    refine ⟨?_, ?_, ?_⟩
    · exact ⟨hs, frs, by simp, fun hc => by rcases hc with hc | hc <;> cases hc⟩
    · intro _ _; simp
    · intro _; rfl

end Binson

namespace Binson

theorem SpansOk_of_fields {n : Nat} {l l' : Level} (hn : l'.name = l.name) (hv : l'.val = l.val) (h : l.SpansOk n) : l'.SpansOk n := by
  unfold Level.SpansOk at *; rw [hn, hv]; exact h

theorem objBlock_spec {lv lv' : Level} {tok tok' : Tok} (h : objBlock lv tok = some (lv', tok')) :
    lv'.name = lv.name ∧ lv'.val = lv.val ∧ lv'.ad = lv.ad ∧ lv'.ctype = lv.ctype ∧
    (tok' = tok ∨ (tok = .string ∧ tok' = .fieldName)) := by
  unfold objBlock at h
  by_cases h1 : lv.flags.inObject = true
  · rw [if_pos h1] at h
    simp only at h
    by_cases h2 : lv.flags = .expField ∧ tok = .string
    · rw [if_pos h2] at h
      have : Tok.fieldName.isValue = false := rfl
      rw [this] at h
      simp only [Bool.false_eq_true, if_false, Option.some.injEq, Prod.mk.injEq] at h
      obtain ⟨rfl, rfl⟩ := h
      exact ⟨rfl, rfl, rfl, rfl, Or.inr ⟨h2.2, rfl⟩⟩
    · rw [if_neg h2] at h
      by_cases h3 : tok.isValue = true
      · rw [if_pos h3] at h
        by_cases h4 : lv.flags = .expValue
        · rw [if_pos h4] at h
          simp only [Option.some.injEq, Prod.mk.injEq] at h
          obtain ⟨rfl, rfl⟩ := h
          exact ⟨rfl, rfl, rfl, rfl, Or.inl rfl⟩
        · rw [if_neg h4] at h; cases h
      · rw [if_neg h3] at h
        simp only [Option.some.injEq, Prod.mk.injEq] at h
        obtain ⟨rfl, rfl⟩ := h
        exact ⟨rfl, rfl, rfl, rfl, Or.inl rfl⟩
  · rw [if_neg h1] at h
    simp only [Option.some.injEq, Prod.mk.injEq] at h
    obtain ⟨rfl, rfl⟩ := h
    exact ⟨rfl, rfl, rfl, rfl, Or.inl rfl⟩

theorem arrBlock_spec (lv : Level) (tok : Tok) (b : Bool) (s : Option Scan) :
    (arrBlock lv tok b s).1.name = lv.name ∧ (arrBlock lv tok b s).1.val = lv.val ∧
    (arrBlock lv tok b s).1.ad = lv.ad ∧ (arrBlock lv tok b s).1.ctype = lv.ctype := by
  unfold arrBlock
  split
  · split
    · split <;> exact ⟨rfl, rfl, rfl, rfl⟩
    · exact ⟨rfl, rfl, rfl, rfl⟩
  · exact ⟨rfl, rfl, rfl, rfl⟩

/-- what one stage of an iteration guarantees relative to the parser `p0` at the start of the iteration -/
structure IterOk (p0 : Parser) (ev0 : List Event) (r : LoopSt × Out) : Prop where
  shape : Shape r.1.p
  frame : p0.Frame r.1.p
  ev : r.1.ev.length ≤ ev0.length + 1
  cont : r.2 = .cont → r.1.p.err = .none ∧ p0.used < r.1.p.used

theorem StageOk.toIter {p0 : Parser} {ev0 : List Event} {u : Nat} {r : LoopSt × Out} (s : StageOk p0 ev0 u r)
    (hu : r.2 = .cont → p0.used < u) : IterOk p0 ev0 r :=
  ⟨s.shape, s.frame, s.ev, fun hc => ⟨(s.go (Or.inl hc)).1, by rw [(s.go (Or.inl hc)).2]; exact hu hc⟩⟩

/-- an early `return` with the parser in shape -/
theorem IterOk.ofRet {p0 q : Parser} {st : LoopSt} (hq : Shape q) (fr : p0.Frame q)
    (scan : Option Scan) (bc : Nat) (b : Bool) : IterOk p0 st.ev ({ st with p := q, scan := scan, bc := bc }, .ret b) :=
  ⟨hq, fr, by simp, fun h => by cases h⟩

theorem caseObjBegin_ok {p0 p : Parser} (st : LoopSt) (hp : Shape p) (he : p.err = .none) (fr : p0.Frame p)
    (hu : p.used = p0.used) (hlt : p.used < p.size)
    (lv : Level) (hl : lv.SpansOk p.size) (scan : Option Scan) :
    IterOk p0 st.ev (caseObjBegin st p lv p.lvlIdx scan) := by
  have hli := hp.lvlIdx_lt
  unfold caseObjBegin
  split
  · -- consumed
    rename_i hh
    have f := setLvl_fields (p := p) lv hli
    simp only at f
    obtain ⟨f1, f2, f3, f4, f5, f6, f7, f8, f9, f11, f12⟩ := f
    have hs := hp.setLvl lv hli hl
    generalize p.setLvl p.lvlIdx lv = q at hs f1 f2 f3 f4 f5 f6 f7 f8 f9 f11 f12
    simp only
    have frq : p0.Frame q := fr.trans ⟨f4, f6, f3, f1, f12⟩
    split
    · rename_i hd
      have hd' : q.depth < q.maxDepth := hd.2
      -- new level
      have hq1 : Shape { q with used := q.used + 1, depth := q.depth + 1, cur := q.depth + 1 - 1 } := by
        refine hs.update ⟨rfl, rfl, rfl, rfl, rfl⟩ hs.hnf hs.hno (by simp; omega) (by simp [Parser.lvlIdx]) (by simp; omega) ?_
        intro e i; exact hs.hsp e i
      have hcur : ({ q with used := q.used + 1, depth := q.depth + 1, cur := q.depth + 1 - 1 } : Parser).cur
          < ({ q with used := q.used + 1, depth := q.depth + 1, cur := q.depth + 1 - 1 } : Parser).levels.size := hq1.cur_lt
      rw [touchLvl_of_lt hcur]
      have hsp := hq1.hsp (by simpa using (f7.trans he)) (q.depth + 1 - 1)
      have := (finish_spec st .objBegin (p0 := p0) hq1 (frq.trans ⟨rfl, rfl, rfl, rfl, rfl⟩) 
        { ({ q with used := q.used + 1, depth := q.depth + 1, cur := q.depth + 1 - 1 } : Parser).getLvl (q.depth + 1 - 1) with flags := .expField }
        (q.depth + 1 - 1) hcur (SpansOk_of_fields rfl rfl hsp) (clear scan .enterObj) false).1
      exact this.toIter (fun _ => by simp; omega)
    · have hq1 : Shape { q with used := q.used + 1, err := .maxDepthObject } :=
        (hs.withUsed (q.used + 1) (by omega)).withErr _ (by simp)
      have := (finish_spec st .objBegin (p0 := p0) hq1 (frq.trans ⟨rfl, rfl, rfl, rfl, rfl⟩) 
        lv p.lvlIdx (by simpa [f12] using hli) (by simpa [f4] using hl) (clear scan .enterObj) false).1
      exact this.toIter (fun _ => by simp; omega)
  · rename_i hh
    have hh' : has scan [.verify, .enterObj, .value, .leaveArr, .leaveObj] = false := by simpa using hh
    have hno : has scan [.verify, .leaveObj, .value, .leaveArr] = false :=
      has_mono (by intro x hx; simp at hx ⊢; rcases hx with rfl | rfl | rfl | rfl <;> simp) hh'
    have fs := finish_spec st .objBegin (p0 := p0) hp fr
      (if lv.flags = .expField then { lv with flags := .expValue } else lv) p.lvlIdx hli
      (by split <;> first | exact hl | exact SpansOk_of_fields rfl rfl hl) scan false
    exact fs.1.toIter (fun hc => absurd hc (fs.2.1 rfl hno))

end Binson

namespace Binson

theorem setLvl_ok {p0 p : Parser} (hp : Shape p) (fr : p0.Frame p) {i : Nat} (l : Level)
    (hi : i < p.levels.size) (hl : l.SpansOk p.size) :
    Shape (p.setLvl i l) ∧ p0.Frame (p.setLvl i l) ∧ True ∧ (p.setLvl i l).used = p.used ∧
    (p.setLvl i l).depth = p.depth ∧ (p.setLvl i l).err = p.err ∧ (p.setLvl i l).cur = p.cur ∧ (p.setLvl i l).size = p.size ∧
    (p.setLvl i l).levels.size = p.levels.size ∧ (p.setLvl i l).ptype = p.ptype ∧ (p.setLvl i l).maxDepth = p.maxDepth := by
  have f := setLvl_fields (p := p) l hi
  simp only at f
  obtain ⟨f1, f2, f3, f4, f5, f6, f7, f8, f9, f11, f12⟩ := f
  exact ⟨hp.setLvl l hi hl, fr.trans ⟨f4, f6, f3, f1, f12⟩, trivial, f5, f2, f7, f8, f4, f12, f1, f3⟩

theorem caseObjEnd_ok {p0 p : Parser} (st : LoopSt) (hp : Shape p) (he : p.err = .none) (fr : p0.Frame p)
    (hu : p.used = p0.used) (hlt : p.used < p.size)
    (lv : Level) (hl : lv.SpansOk p.size) (scan : Option Scan) (od : Nat) :
    IterOk p0 st.ev (caseObjEnd st p lv p.lvlIdx scan od) := by
  have hli := hp.lvlIdx_lt
  unfold caseObjEnd
  split
  · have hq1 : Shape { p with err := .format } := hp.withErr _ (by simp)
    have fs := finish_spec st .objEnd (p0 := p0) hq1 (fr.trans ⟨rfl, rfl, rfl, rfl, rfl⟩) lv p.lvlIdx hli hl scan false
    exact fs.1.toIter (fun hc => by rw [fs.2.2 (by simp)] at hc; cases hc)
  · obtain ⟨s1, s2, s3, s4, s5, s6, s7, s8, s9, s10, s11⟩ := setLvl_ok hp fr lv hli hl
    split
    · simp only
      generalize (if od = p.depth then clear scan .leaveObj else scan) = scan'
      split
      · exact IterOk.ofRet s1 s2 _ _ _
      · generalize p.setLvl p.lvlIdx lv = q at s1 s2 s3 s4 s5 s6 s7 s8 s9 s10 s11
        -- consumed: wipe the level, pop
        have hq2 : Shape { q with used := q.used + 1 } := s1.withUsed (q.used + 1) (by omega)
        have hcur : ({ q with used := q.used + 1 } : Parser).cur < ({ q with used := q.used + 1 } : Parser).levels.size := hq2.cur_lt
        rw [touchLvl_of_lt hcur]
        obtain ⟨t1, t2, t3, t4, t5, t6, t7, t8, t9, t10, t11⟩ :=
          setLvl_ok (p0 := p0) hq2 (s2.trans ⟨rfl, rfl, rfl, rfl, rfl⟩) Level.zero hcur (Level.zero_spansOk _)
        generalize ({ q with used := q.used + 1 } : Parser).setLvl ({ q with used := q.used + 1 } : Parser).cur Level.zero = w
          at t1 t2 t3 t4 t5 t6 t7 t8 t9 t10 t11
        simp only at t4 t5 t6 t7 t8 t9 t10 t11
        split
        · rename_i hd
          have hw : Shape { w with depth := w.depth - 1, cur := w.depth - 1 - 1 } := by
            refine t1.update ⟨rfl, rfl, rfl, rfl, rfl⟩ t1.hnf t1.hno (by have := t1.hdp; simp; omega) ?_ t1.hus ?_
            · simp only [Parser.lvlIdx]; split <;> omega
            · intro e i; exact t1.hsp e i
          have hc2 : w.depth - 1 - 1 < ({ w with depth := w.depth - 1, cur := w.depth - 1 - 1 } : Parser).levels.size := hw.cur_lt
          have hsp := hw.hsp (by simp [t6, s6, he]) (w.depth - 1 - 1)
          have fs := (finish_spec st .objEnd (p0 := p0) hw (t2.trans ⟨rfl, rfl, rfl, rfl, rfl⟩) 
            (({ w with depth := w.depth - 1, cur := w.depth - 1 - 1 } : Parser).getLvl (w.depth - 1 - 1)) (w.depth - 1 - 1) hc2 hsp scan' false).1
          exact fs.toIter (fun _ => by simp; omega)
        · split
          · have hw : Shape { w with depth := 0, cur := 0 } := by
              refine t1.update ⟨rfl, rfl, rfl, rfl, rfl⟩ t1.hnf t1.hno (by simp) (by simp [Parser.lvlIdx]) t1.hus ?_
              intro e i; exact t1.hsp e i
            split
            · refine ⟨hw.withErr .format (by simp), t2.trans ⟨rfl, rfl, rfl, rfl, rfl⟩, by simp, fun h => by cases h⟩
            · refine ⟨hw, t2.trans ⟨rfl, rfl, rfl, rfl, rfl⟩, by simp, fun h => by cases h⟩
          · exact IterOk.ofRet (t1.withErr .format (by simp)) (t2.trans ⟨rfl, rfl, rfl, rfl, rfl⟩) _ _ _
    · exact IterOk.ofRet s1 s2 _ _ _

end Binson

namespace Binson

theorem caseFieldName_ok {p0 p : Parser} (st : LoopSt) (hp : Shape p) (he : p.err = .none) (fr : p0.Frame p)
    (hgt : p0.used < p.used) (lv : Level) (hl : lv.SpansOk p.size) (scan : Option Scan)
    (consumed : Span) (hc : consumed.off + consumed.len ≤ p.size) (bc : Nat) (sn : Option (List UInt8)) (oa od : Nat) :
    IterOk p0 st.ev (caseFieldName st p lv p.lvlIdx scan consumed bc sn oa od) := by
  have hli := hp.lvlIdx_lt
  have hl2 : ({ lv with name := some consumed, flags := .expValue } : Level).SpansOk p.size := by
    constructor
    · intro s hs; simp at hs; subst hs; exact hc
    · intro s hs; exact hl.2 s hs
  unfold caseFieldName
  have hb : consumed.off + consumed.len ≤ p.buf.size := by rw [hp.hbs]; exact hc
  have htn : touchName (p.touchBuf consumed.off consumed.len) lv.name = p := by
    rw [touchBuf_of_le hb]
    unfold touchName
    cases hn : lv.name with
    | none => rfl
    | some pn => exact touchBuf_of_le (by rw [hp.hbs]; exact hl.1 pn hn)
  simp only [htn]
  generalize nameOrdErr p lv consumed = ordErr
  generalize overshoot p consumed sn = over
  cases ordErr
  · simp only [Bool.false_eq_true, if_false]
    by_cases hat : oa = lv.ad ∧ od = p.depth
    · rw [if_pos hat]
      cases over
      · simp only [Bool.false_eq_true, if_false]
        have fs := finish_spec st .fieldName (p0 := p0) hp fr _ p.lvlIdx hli hl2 (clear scan .value) true
        exact fs.1.toIter (fun _ => hgt)
      · simp only [if_true]
        have hq : Shape { p with used := p.used - bc } := hp.withUsed _ (by have := hp.hus; omega)
        obtain ⟨s1, s2, s3, _⟩ := setLvl_ok (p0 := p0) hq (fr.trans ⟨rfl, rfl, rfl, rfl, rfl⟩)
          { lv with flags := .expField } hli (SpansOk_of_fields rfl rfl hl)
        exact IterOk.ofRet s1 s2 _ _ _
    · rw [if_neg hat]
      have fs := finish_spec st .fieldName (p0 := p0) hp fr _ p.lvlIdx hli hl2 scan true
      exact fs.1.toIter (fun _ => hgt)
  · simp only [if_true]
    have hq1 : Shape { p with err := .format } := hp.withErr _ (by simp)
    have fs := finish_spec st .fieldName (p0 := p0) hq1 (fr.trans ⟨rfl, rfl, rfl, rfl, rfl⟩) lv p.lvlIdx hli hl scan false
    exact fs.1.toIter (fun hc => by rw [fs.2.2 (by simp)] at hc; cases hc)

theorem caseArrBegin_ok {p0 p : Parser} (st : LoopSt) (hp : Shape p) (he : p.err = .none) (fr : p0.Frame p)
    (hu : p.used = p0.used) (hlt : p.used < p.size)
    (lv : Level) (hl : lv.SpansOk p.size) (scan : Option Scan) :
    IterOk p0 st.ev (caseArrBegin st p lv p.lvlIdx scan) := by
  have hli := hp.lvlIdx_lt
  unfold caseArrBegin
  split
  · have hq1 : Shape { p with err := .maxDepthArray } := hp.withErr _ (by simp)
    have fs := finish_spec st .arrBegin (p0 := p0) hq1 (fr.trans ⟨rfl, rfl, rfl, rfl, rfl⟩) lv p.lvlIdx hli hl scan false
    exact fs.1.toIter (fun hc => by rw [fs.2.2 (by simp)] at hc; cases hc)
  · split
    · have hq : Shape { p with used := p.used + 1 } := hp.withUsed (p.used + 1) (by omega)
      have fs := finish_spec st .arrBegin (p0 := p0) hq (fr.trans ⟨rfl, rfl, rfl, rfl, rfl⟩)
        { lv with flags := .arr1, ad := lv.ad + 1 } p.lvlIdx hli (SpansOk_of_fields rfl rfl hl) (clear scan .enterArr) false
      exact fs.1.toIter (fun _ => by simp; omega)
    · rename_i hh
      have hh' : has scan [.verify, .value, .enterArr, .leaveArr, .leaveObj] = false := by simpa using hh
      have hno : has scan [.verify, .leaveObj, .value, .leaveArr] = false :=
        has_mono (by intro x hx; simp at hx ⊢; rcases hx with rfl | rfl | rfl | rfl <;> simp) hh'
      have fs := finish_spec st .arrBegin (p0 := p0) hp fr
        (if lv.flags = .expField then { lv with flags := .expValue } else lv) p.lvlIdx hli
        (by split <;> first | exact hl | exact SpansOk_of_fields rfl rfl hl) scan false
      exact fs.1.toIter (fun hc => absurd hc (fs.2.1 rfl hno))

theorem caseArrEnd_ok {p0 p : Parser} (st : LoopSt) (hp : Shape p) (he : p.err = .none) (fr : p0.Frame p)
    (hu : p.used = p0.used) (hlt : p.used < p.size)
    (lv : Level) (hl : lv.SpansOk p.size) (scan : Option Scan) (oa od : Nat) :
    IterOk p0 st.ev (caseArrEnd st p lv p.lvlIdx scan oa od) := by
  have hli := hp.lvlIdx_lt
  unfold caseArrEnd
  split
  · have hq1 : Shape { p with err := .format } := hp.withErr _ (by simp)
    have fs := finish_spec st .arrEnd (p0 := p0) hq1 (fr.trans ⟨rfl, rfl, rfl, rfl, rfl⟩) lv p.lvlIdx hli hl scan false
    exact fs.1.toIter (fun hc => by rw [fs.2.2 (by simp)] at hc; cases hc)
  · split
    · simp only
      generalize (if od = p.depth ∧ oa = lv.ad then clear scan .leaveArr else scan) = scan'
      split
      · have hq1 : Shape { p with err := .format } := hp.withErr _ (by simp)
        have fs := finish_spec st .arrEnd (p0 := p0) hq1 (fr.trans ⟨rfl, rfl, rfl, rfl, rfl⟩) lv p.lvlIdx hli hl scan' false
        exact fs.1.toIter (fun hc => by rw [fs.2.2 (by simp)] at hc; cases hc)
      · have hq : Shape { p with used := p.used + 1 } := hp.withUsed (p.used + 1) (by omega)
        split
        · split
          · obtain ⟨s1, s2, s3, s4, s5, s6, s7, s8, s9, s10, s11⟩ := setLvl_ok (p0 := p0) hq (fr.trans ⟨rfl, rfl, rfl, rfl, rfl⟩)
              { lv with ad := lv.ad - 1, flags := .expField } hli (SpansOk_of_fields rfl rfl hl)
            generalize ({ p with used := p.used + 1 } : Parser).setLvl p.lvlIdx { lv with ad := lv.ad - 1, flags := .expField } = q
              at s1 s2 s3 s4 s5 s6 s7 s8 s9 s10 s11
            split
            · exact ⟨s1.withErr .format (by simp), s2.trans ⟨rfl, rfl, rfl, rfl, rfl⟩, by simp, fun h => by cases h⟩
            · exact ⟨s1, s2.trans ⟨rfl, rfl, rfl, rfl, rfl⟩, by simp, fun h => by cases h⟩
          · have fs := finish_spec st .arrEnd (p0 := p0) hq (fr.trans ⟨rfl, rfl, rfl, rfl, rfl⟩)
              { lv with ad := lv.ad - 1, flags := .expField } p.lvlIdx hli (SpansOk_of_fields rfl rfl hl) scan' false
            exact fs.1.toIter (fun _ => by simp; omega)
        · have fs := finish_spec st .arrEnd (p0 := p0) hq (fr.trans ⟨rfl, rfl, rfl, rfl, rfl⟩)
            { lv with ad := lv.ad - 1, flags := .arr1 } p.lvlIdx hli (SpansOk_of_fields rfl rfl hl) scan' false
          exact fs.1.toIter (fun _ => by simp; omega)
    · obtain ⟨s1, s2, s3, _⟩ := setLvl_ok hp fr lv hli hl
      exact IterOk.ofRet s1 s2 _ _ _

theorem caseScalar_ok {p0 p : Parser} (st : LoopSt) (tok : Tok) (hp : Shape p) (he : p.err = .none) (fr : p0.Frame p)
    (hgt : p0.used < p.used) (lv : Level) (hl : lv.SpansOk p.size) (scan : Option Scan)
    (consumed : Span) (hc : consumed.off + consumed.len ≤ p.size) :
    IterOk p0 st.ev (caseScalar st tok p lv p.lvlIdx scan consumed) := by
  have hli := hp.lvlIdx_lt
  have hb : consumed.off + consumed.len ≤ p.buf.size := by rw [hp.hbs]; exact hc
  have hspan : ∀ t, ({ lv with ctype := t, val := .span consumed } : Level).SpansOk p.size := by
    intro t
    constructor
    · intro s hs; exact hl.1 s hs
    · intro s hs; simp at hs; subst hs; exact hc
  have hnospan : ∀ (t : Ty) (v : Val), (∀ s, v ≠ .span s) → ({ lv with ctype := t, val := v } : Level).SpansOk p.size := by
    intro t v hv
    constructor
    · intro s hs; exact hl.1 s hs
    · intro s hs; exact absurd hs (hv s)
  unfold caseScalar
  split
  · exact (finish_spec st _ (p0 := p0) hp fr _ p.lvlIdx hli (hspan _) scan false).1.toIter (fun _ => hgt)
  · exact (finish_spec st _ (p0 := p0) hp fr _ p.lvlIdx hli (hspan _) scan false).1.toIter (fun _ => hgt)
  · simp only [touchBuf_of_le hb]
    split
    · have hq1 : Shape { p with err := .format } := hp.withErr _ (by simp)
      have hv : ({ lv with val := .int (parseIntVal p consumed) } : Level).SpansOk p.size :=
        ⟨fun s hs => hl.1 s hs, fun s hs => by simp at hs⟩
      have fs := finish_spec st .integer (p0 := p0) hq1 (fr.trans ⟨rfl, rfl, rfl, rfl, rfl⟩) _ p.lvlIdx hli hv scan false
      exact fs.1.toIter (fun hc => by rw [fs.2.2 (by simp)] at hc; cases hc)
    · exact (finish_spec st _ (p0 := p0) hp fr _ p.lvlIdx hli (hnospan _ _ (by simp)) scan false).1.toIter (fun _ => hgt)
  · simp only [touchBuf_of_le hb]
    exact (finish_spec st _ (p0 := p0) hp fr _ p.lvlIdx hli (hnospan _ _ (by simp)) scan false).1.toIter (fun _ => hgt)
  · exact (finish_spec st _ (p0 := p0) hp fr _ p.lvlIdx hli (hnospan _ _ (by simp)) scan false).1.toIter (fun _ => hgt)
  · exact IterOk.ofRet (st := st) (hp.withErr .format (by simp)) (fr.trans ⟨rfl, rfl, rfl, rfl, rfl⟩) st.scan st.bc false

end Binson

namespace Binson

/-- One pass through the loop body on a shaped, error-free parser. -/
theorem iter_spec (st : LoopSt) (sn : Option (List UInt8)) (oa od : Nat) (h : Shape st.p) (he : st.p.err = .none) :
    IterOk st.p st.ev (iter st sn oa od) := by
  unfold iter
  simp only
  rcases classify_spec h he st.bc with ⟨et, ce⟩ | ⟨et, co⟩
  · rw [if_pos et]
    exact IterOk.ofRet ce.shape ce.frame.toFrame _ _ _
  · rw [if_neg et]
    generalize classify st.p st.bc = c at et co
    obtain ⟨csh, cerr, cfr, cspan, cnf, cbe, csc⟩ := co
    have hce : c.p.err = .none := cerr.trans he
    have hfr : st.p.Frame c.p := cfr.toFrame
    have hsz : c.p.size = st.p.size := cfr.2.2.2.1
    have hsp0 := csh.hsp hce c.p.lvlIdx
    cases hob : objBlock (c.p.getLvl c.p.lvlIdx) c.tok with
    | none =>
      simp only
      exact IterOk.ofRet (csh.withErr .format (by simp)) (hfr.trans ⟨rfl, rfl, rfl, rfl, rfl⟩) _ _ _
    | some r =>
      obtain ⟨lv, tok⟩ := r
      simp only
      obtain ⟨o1, o2, o3, o4, o5⟩ := objBlock_spec hob
      have hlv : lv.SpansOk c.p.size := SpansOk_of_fields o1 o2 hsp0
      obtain ⟨a1, a2, a3, a4⟩ := arrBlock_spec lv tok (decide (oa = lv.ad ∧ od = c.p.depth)) st.scan
      have hlv2 : (arrBlock lv tok (decide (oa = lv.ad ∧ od = c.p.depth)) st.scan).1.SpansOk c.p.size := SpansOk_of_fields a1 a2 hlv
      generalize (arrBlock lv tok (decide (oa = lv.ad ∧ od = c.p.depth)) st.scan) = ab at hlv2
      have hspan : c.span.off + c.span.len ≤ c.p.size := by rw [hsz]; exact cspan
      -- used facts
      have hbe : tok.isBeginEnd = true → c.p.used = st.p.used ∧ c.p.used < c.p.size := by
        intro hb
        rcases o5 with rfl | ⟨_, rfl⟩
        · have := cbe hb; exact ⟨this.1, by rw [this.1, hsz]; exact this.2.2.2⟩
        · cases hb
      have hsc : tok.isBeginEnd = false → st.p.used < c.p.used := by
        intro hb
        have hcb : c.tok.isBeginEnd = false := by
          rcases o5 with rfl | ⟨e, _⟩
          · exact hb
          · rw [e]; rfl
        have := csc hcb; omega
      have hev : ({ st with bc := c.bc } : LoopSt).ev = st.ev := rfl
      rw [← hev]
      generalize ({ st with bc := c.bc } : LoopSt) = st'
      cases tok with
      | objBegin => exact caseObjBegin_ok st' csh hce hfr (hbe rfl).1 (hbe rfl).2 _ hlv2 _
      | objEnd => exact caseObjEnd_ok st' csh hce hfr (hbe rfl).1 (hbe rfl).2 _ hlv2 _ _
      | arrBegin => exact caseArrBegin_ok st' csh hce hfr (hbe rfl).1 (hbe rfl).2 _ hlv2 _
      | arrEnd => exact caseArrEnd_ok st' csh hce hfr (hbe rfl).1 (hbe rfl).2 _ hlv2 _ _ _
      | fieldName => exact caseFieldName_ok st' csh hce hfr (hsc rfl) _ hlv2 _ _ hspan _ _ _ _
      | string => exact caseScalar_ok st' _ csh hce hfr (hsc rfl) _ hlv2 _ _ hspan
      | boolean => exact caseScalar_ok st' _ csh hce hfr (hsc rfl) _ hlv2 _ _ hspan
      | double => exact caseScalar_ok st' _ csh hce hfr (hsc rfl) _ hlv2 _ _ hspan
      | integer => exact caseScalar_ok st' _ csh hce hfr (hsc rfl) _ hlv2 _ _ hspan
      | bytes => exact caseScalar_ok st' _ csh hce hfr (hsc rfl) _ hlv2 _ _ hspan
      | error => exact caseScalar_ok st' _ csh hce hfr (hsc rfl) _ hlv2 _ _ hspan

end Binson
