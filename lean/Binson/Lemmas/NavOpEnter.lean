/-
  Layer 4, part 17: `go_into_object` / `go_into_array` on the container `next` stopped at.
-/
import Binson.Lemmas.NavOpNext
namespace Binson

theorem flat_ne_nil {ar : Bool} {L : RLevel} {Ls : List RLevel} (h : BaseOk ar L Ls) : ∃ f fr, flat (L :: Ls) = f :: fr := by
  obtain ⟨pv, b, arrs⟩ := L
  cases arrs with
  | cons xs r => exact ⟨_, _, flat_arr pv b xs r Ls⟩
  | nil =>
    cases b with
    | some fs => exact ⟨_, _, flat_obj pv fs Ls⟩
    | none =>
      cases Ls with
      | nil => exact absurd rfl (h.2 rfl)
      | cons _ _ => exact absurd rfl h.1

theorem map_slice_congr {p q : Parser} (hb : q.buf = p.buf) (o : Option Span) : o.map q.slice = o.map p.slice := by
  cases o with
  | none => rfl
  | some s => simp only [Option.map]; rw [slice_congr hb]

namespace Run

variable {p : Parser} {c : Cursor} {L : RLevel} {Ls : List RLevel}

theorem pendFlags (h : Run p c L Ls (some v)) (scan : Scan) (hs : scan ≠ .value) :
    PendFlags (p.getLvl p.lvlIdx) (some scan) := by
  obtain ⟨_, _, h3, _⟩ := h.pend
  rw [h.lvlIdx]
  have had := h.top.ad
  cases ha : L.arrs with
  | nil => rw [ha] at had; exact Or.inl ⟨by rw [h3]; unfold pflags; rw [ha], had⟩
  | cons x r => rw [ha] at had; exact Or.inr (Or.inl ⟨by rw [h3]; unfold pflags; rw [ha], by rw [had]; simp⟩)

/-- `_advance_parsing(ENTER_OBJECT)` on a pending object -/
theorem adv_enter_obj {fs : Fields} (h : Run p c L Ls (some (.obj fs))) :
    (advance p .enterObj none).ret = true ∧
    Run (advance p .enterObj none).p (mkCur c.arrayRoot p.size (flat (⟨none, some fs, []⟩ :: L :: Ls)) none)
      ⟨none, some fs, []⟩ (L :: Ls) none := by
  have hO := h.atOrig .enterObj
  have hli := h.lvlIdx
  obtain ⟨_, h2, h3, _, _, h6, h7⟩ := h.pend
  have hsh := h.shape
  have hrem' : p.rem = 0x40 :: (encFields fs ++ 0x41 :: tailBytes (flat (L :: Ls))) := by simpa [encode] using h2
  have hcl := classify_objBegin hsh h.err 0 _ hrem'
  have hlt := (rem_cons hsh hrem').2.1
  have hfit' : (1 ≤ p.maxDepth - (Ls.length + 1)) ∧ fitsF (p.maxDepth - (Ls.length + 1) - 1) fs = true := by
    simpa [fits] using h7
  have hd := h.depth
  obtain ⟨lv1, lv2, hob, hab, b1, b2, _, _, b5, b6, _⟩ :=
    blocks_begin_orig (tok := .objBegin) (d := p.depth) (scan := some .enterObj) (oa := (p.getLvl p.cur).ad) (od := p.depth)
      (Or.inl rfl) (h.pendFlags .enterObj (by decide)) (by rw [hsh.hcur]) rfl .object
  obtain ⟨st', i1, r1⟩ := iter_objBegin_enter (st := ⟨p, some .enterObj, 0, []⟩) (sn := none) hsh h.err (by rw [hd]; omega)
    (h.zeros _ (Nat.le_refl _)) h.md (by show p.depth < p.maxDepth; rw [hd]; omega) hcl hlt lv1 lv2 (some .enterObj) hob hab rfl
  rw [show clear (some Scan.enterObj) .enterObj = none from rfl, outOf_none] at i1
  simp only at r1
  obtain ⟨e1, e2⟩ := advance_of_halts hsh h.err .enterObj none (Halts.stop i1 r1.err)
  rw [e1, e2]
  have hlv : ∀ i, st'.p.getLvl i = if i = Ls.length + 1 then freshObjLevel else if i = Ls.length then lv2 else p.getLvl i := by
    intro i; rw [r1.lvl, hd, hli]
  have hr1 : st'.p.rem = encFields fs ++ 0x41 :: tailBytes (flat (L :: Ls)) := rem_step hsh hrem' r1.frame r1.used
  have hmd : st'.p.maxDepth = p.maxDepth := r1.frame.2.2.1
  have hbuf : st'.p.buf = p.buf := r1.frame.2.1
  have hLold : st'.p.getLvl Ls.length = lv2 := by rw [hlv]; simp
  have hLnew : st'.p.getLvl (Ls.length + 1) = freshObjLevel := by rw [hlv]; simp
  refine ⟨rfl, ⟨r1.shape, r1.err, by rw [hmd]; exact h.md, by rw [r1.depth, hd]; simp, ?_, by rw [r1.frame.2.2.2.1]; exact h.aroot,
    ⟨by simp, h.base⟩, ?_, ⟨?_, ?_, ?_⟩, by rw [r1.frame.1]; rfl, rfl, rfl, ?_⟩⟩
  · intro i hi
    rw [r1.depth, hd] at hi
    rw [hlv]
    have a1 : i ≠ Ls.length + 1 := by omega
    have a2 : i ≠ Ls.length := by omega
    simp only [a1, a2, if_false]
    exact h.zeros i (by rw [hd]; omega)
  · refine ⟨by simp only [List.length_cons]; rw [hLnew]; rfl, by simp only [List.length_cons]; rw [hLnew]; rfl, ?_, trivial⟩
    intro fs' hfs
    injection hfs with hfs
    subst hfs
    refine ⟨by simpa [wfValue] using h6, ?_⟩
    simp only [List.length_cons]
    rw [hmd, show p.maxDepth - (Ls.length + 1 + 1) = p.maxDepth - (Ls.length + 1) - 1 by omega]
    exact hfit'.2
  · exact h.top.transfer (by rw [hLold, b1]; rw [hli]) (by rw [hLold, b2]; rw [hli]) hbuf hmd
  · rw [hLold]
    cases ha : L.arrs with
    | nil =>
      have : (p.getLvl p.lvlIdx).flags = .expValue := by rw [hli, h3]; unfold pflags; rw [ha]
      rw [b5 this]; unfold nflags; rw [ha]
    | cons x r =>
      have : (p.getLvl p.lvlIdx).flags = .arr2 := by rw [hli, h3]; unfold pflags; rw [ha]
      rw [b6 this]; unfold nflags; rw [ha]
  · refine h.susp.transfer (fun i hi => ?_) hbuf hmd
    rw [hlv]
    have a1 : i ≠ Ls.length + 1 := by omega
    have a2 : i ≠ Ls.length := by omega
    simp only [a1, a2, if_false]
  · refine ⟨by rw [hr1, flat_obj]; rfl, by simp only [List.length_cons]; rw [hLnew]; rfl, Or.inl rfl⟩

/-- `_advance_parsing(ENTER_ARRAY)` on a pending array -/
theorem adv_enter_arr {pv : Option Bytes} {b : Option Fields} {arrs : List Elems} {xs : Elems}
    (h : Run p c ⟨pv, b, arrs⟩ Ls (some (.arr xs))) :
    (advance p .enterArr none).ret = true ∧
    Run (advance p .enterArr none).p (mkCur c.arrayRoot p.size (flat (⟨pv, b, xs :: arrs⟩ :: Ls)) none)
      ⟨pv, b, xs :: arrs⟩ Ls none := by
  have hli := h.lvlIdx
  obtain ⟨_, h2, h3, _, _, h6, h7⟩ := h.pend
  have hsh := h.shape
  have hrem' : p.rem = 0x42 :: (encElems xs ++ 0x43 :: tailBytes (flat (⟨pv, b, arrs⟩ :: Ls))) := by simpa [encode] using h2
  have hcl := classify_arrBegin hsh h.err 0 _ hrem'
  have hlt := (rem_cons hsh hrem').2.1
  have hfit' : (1 ≤ 255 - arrs.length) ∧ fitsE (p.maxDepth - (Ls.length + 1)) (255 - arrs.length - 1) xs = true := by
    simpa [fits] using h7
  have hd := h.depth
  have had := h.top.ad
  simp only at had
  obtain ⟨lv1, lv2, hob, hab, b1, b2, _, _, _, _, _⟩ :=
    blocks_begin_orig (tok := .arrBegin) (d := p.depth) (scan := some .enterArr) (oa := (p.getLvl p.cur).ad) (od := p.depth)
      (Or.inr rfl) (h.pendFlags .enterArr (by decide)) (by rw [hsh.hcur]) rfl .array
  obtain ⟨st', i1, r1⟩ := iter_arrBegin_enter (st := ⟨p, some .enterArr, 0, []⟩) (sn := none) hsh h.err hcl hlt
    lv1 lv2 (some .enterArr) hob hab (by rw [b1, hli, had]; omega) rfl
  rw [show clear (some Scan.enterArr) .enterArr = none from rfl, outOf_none] at i1
  simp only at r1
  obtain ⟨e1, e2⟩ := advance_of_halts hsh h.err .enterArr none (Halts.stop i1 r1.err)
  rw [e1, e2]
  have hlv : ∀ i, st'.p.getLvl i = if i = Ls.length then { lv2 with flags := .arr1, ad := lv2.ad + 1 } else p.getLvl i := by
    intro i; rw [r1.lvl, hli]
  have hr1 : st'.p.rem = encElems xs ++ 0x43 :: tailBytes (flat (⟨pv, b, arrs⟩ :: Ls)) := rem_step hsh hrem' r1.frame r1.used
  have hmd : st'.p.maxDepth = p.maxDepth := r1.frame.2.2.1
  have hL : st'.p.getLvl Ls.length = { lv2 with flags := .arr1, ad := lv2.ad + 1 } := by rw [hlv]; simp
  refine ⟨rfl, h.next_state r1.shape r1.err r1.frame r1.depth (fun i hi => by rw [hlv]; simp [Nat.ne_of_lt hi]) ?_
    ⟨pv, b, xs :: arrs⟩ none none (BaseOk_congr h.base (by simp) (by simp)) ⟨?_, ?_, ?_, ?_⟩ ?_⟩
  · intro i hi
    rw [r1.depth, hd] at hi
    rw [hlv]
    have a2 : i ≠ Ls.length := by omega
    simp only [a2, if_false]
    exact h.zeros i (by rw [hd]; omega)
  · rw [hL]; simp only [List.length_cons, b1]; rw [hli, had]
  · rw [hL]
    show lv2.name.map st'.p.slice = pv
    rw [b2, hli, map_slice_congr r1.frame.2.1]
    exact h.top.name
  · rw [hmd]; exact h.top.base
  · rw [hmd]
    refine ⟨by simpa [wfValue] using h6, ?_, h.top.arrs⟩
    rw [show 255 - (arrs.length + 1) = 255 - arrs.length - 1 by omega]; exact hfit'.2
  · exact ⟨by rw [hr1, tail_arr], by rw [hL]; rfl, Or.inl rfl⟩

end Run

end Binson
