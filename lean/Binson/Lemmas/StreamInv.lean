/-
  C08, part 4: the invariant of the parser object BETWEEN loop iterations and between calls,
  for every scan mode: the zipper invariant `Z` of verify's soundness proof without its
  scan-mode clause (`ZG`), the not-yet-entered state (`ZF`), and the outcome `Res` of a pass
  through the loop body.
-/
import Binson.Lemmas.StreamTok
namespace Binson

/-- the levels mirror a zipper context `gs` of the bytes consumed so far (any scan mode) -/
structure ZG (buf : Array UInt8) (md t : Nat) (p : Parser) (gs : List Grp) : Prop where
  shape : Shape p
  err : p.err = .none
  hbuf : p.buf = buf
  hmd : p.maxDepth = md
  md255 : md ≤ 255
  hpt : p.ptype = t
  t12 : t = 1 ∨ t = 2
  depth : p.depth = gs.length
  ne : gs ≠ []
  zeros : ∀ i, p.depth ≤ i → p.getLvl i = Level.zero
  mirror : Mirror buf md t p.getLvl gs true
  bytes : buf.toList = encGs gs ++ p.rem

/-- the facts about the innermost group -/
structure GTop (buf : Array UInt8) (md t : Nat) (p : Parser) (g : Grp) (rest : List Grp) : Prop where
  idx : p.lvlIdx = rest.length
  dep : p.depth = rest.length + 1
  lv : LvOk buf (p.getLvl rest.length) g true
  ok : GrpOk (md - (rest.length + 1)) g
  virt : g.virt = true ↔ (rest = [] ∧ t = 2)
  low : Mirror buf md t p.getLvl rest false
  room : rest.length + 1 ≤ md

theorem ZG.top {buf : Array UInt8} {md t : Nat} {p : Parser} {g : Grp} {rest : List Grp} (hZ : ZG buf md t p (g :: rest)) :
    GTop buf md t p g rest := by
  have hd : p.depth = rest.length + 1 := by rw [hZ.depth]; simp
  obtain ⟨h1, h2, h3, h4⟩ := hZ.mirror
  refine ⟨?_, hd, h1, h2, h3, h4, ?_⟩
  · rw [Parser.lvlIdx_of_pos (by omega), hd]; simp
  · have := hZ.shape.hdp; rw [hZ.hmd, hd] at this; exact this

/-- the root container has not been entered: nothing consumed, `[`/`{` of the right kind ahead -/
structure ZF (buf : Array UInt8) (md t : Nat) (p : Parser) : Prop where
  shape : Shape p
  err : p.err = .none
  hbuf : p.buf = buf
  hmd : p.maxDepth = md
  md255 : md ≤ 255
  hpt : p.ptype = t
  root : (t = 1 ∧ ∃ rs, p.rem = 0x40 :: rs) ∨ (t = 2 ∧ ∃ rs, p.rem = 0x42 :: rs)
  depth : p.depth = t - 1
  used : p.used = 0
  flags0 : (p.getLvl 0).flags = .undef
  ad0 : (p.getLvl 0).ad = 0
  name0 : (p.getLvl 0).name = none
  zeros : ∀ i, 1 ≤ i → p.getLvl i = Level.zero

/-- outcome of a pass through the loop body / of a call: an error is latched, or the invariant
    holds again, or the root container has just been closed at the end of a well-formed document -/
def Res (buf : Array UInt8) (md t : Nat) (q : Parser) : Prop :=
  q.err ≠ .none ∨ ZF buf md t q ∨ (∃ gs, ZG buf md t q gs) ∨ (q.used = q.size ∧ Accept buf md t)

theorem rem_same {p q : Parser} (hb : q.buf = p.buf) (hu : q.used = p.used) : q.rem = p.rem := by
  unfold Parser.rem; rw [hb, hu]

/-- building the invariant after a token has been consumed -/
theorem ZG.next {buf : Array UInt8} {md t : Nat} {p q : Parser} {gs gs' : List Grp} (hZ : ZG buf md t p gs)
    (hs : Shape q) (he : q.err = .none) (fr : p.Frame q)
    (hd : q.depth = gs'.length) (hne : gs' ≠ [])
    (hz : ∀ i, q.depth ≤ i → q.getLvl i = Level.zero)
    (hm : Mirror buf md t q.getLvl gs' true)
    (tok rest : Bytes) (hrem : p.rem = tok ++ rest) (hu : q.used = p.used + tok.length)
    (henc : encGs gs' = encGs gs ++ tok) : ZG buf md t q gs' :=
  ⟨hs, he, fr.2.1.trans hZ.hbuf, fr.2.2.1.trans hZ.hmd, hZ.md255, fr.2.2.2.1.trans hZ.hpt, hZ.t12, hd, hne, hz, hm,
    by rw [hZ.bytes, hrem, rem_of_frame fr.2.1 hu hZ.shape hrem rfl, henc, List.append_assoc]⟩

theorem LvOk.sim {buf : Array UInt8} {L L' : Level} {g : Grp} {top : Bool} (h : LvOk buf L g top) (hs : L.Sim L') :
    LvOk buf L' g top := by
  obtain ⟨s1, s2, s3⟩ := hs
  have key : ∀ f, (f = .expField ∨ f = .expValue) → L.flags = f → L'.flags = f := by
    intro f hf hL
    rcases s3 with e | ⟨e, _⟩
    · rw [e, hL]
    · rw [hL] at e
      rcases hf with rfl | rfl <;> rcases e with e | e <;> cases e
  refine ⟨s1.trans h.ad, ?_, ?_, ?_, fun hv => by rw [s2]; exact h.name hv⟩
  · intro hne
    have := h.arrFlags hne
    rcases s3 with e | ⟨_, e⟩
    · rw [e]; exact this
    · exact e
  · intro ha ht
    rcases h.objTop ha ht with ⟨a, b⟩ | ⟨a, b⟩
    · exact Or.inl ⟨a, key _ (Or.inl rfl) b⟩
    · exact Or.inr ⟨a, key _ (Or.inr rfl) b⟩
  · intro ha ht
    obtain ⟨a, b⟩ := h.objLow ha ht
    exact ⟨a, key _ (Or.inl rfl) b⟩

/-- nothing consumed, the innermost level changed at most by the array toggle / `current_type` -/
theorem ZG.same {buf : Array UInt8} {md t : Nat} {p q : Parser} {gs : List Grp} (hZ : ZG buf md t p gs)
    (hs : Shape q) (he : q.err = .none) (fr : p.Frame q) (hu : q.used = p.used) (hd : q.depth = p.depth)
    (L' : Level) (hsim : (p.getLvl p.lvlIdx).Sim L') (hg : ∀ j, q.getLvl j = if j = p.lvlIdx then L' else p.getLvl j) :
    ZG buf md t q gs := by
  obtain ⟨g, rest, rfl⟩ : ∃ g rest, gs = g :: rest := by
    cases gs with
    | nil => exact absurd rfl hZ.ne
    | cons g rest => exact ⟨g, rest, rfl⟩
  have hT := hZ.top
  refine ⟨hs, he, fr.2.1.trans hZ.hbuf, fr.2.2.1.trans hZ.hmd, hZ.md255, fr.2.2.2.1.trans hZ.hpt, hZ.t12, hd.trans hZ.depth, hZ.ne, ?_, ?_,
    by rw [rem_same fr.2.1 hu]; exact hZ.bytes⟩
  · intro i hi
    rw [hd] at hi
    rw [hg, if_neg (by rw [hT.idx]; rw [hT.dep] at hi; omega)]
    exact hZ.zeros i hi
  · refine hZ.mirror.replaceTop (fun i hi => by rw [hg, if_neg (by rw [hT.idx]; omega)]) ?_ hT.ok rfl
    rw [hg, hT.idx, if_pos rfl]
    have := hT.lv
    rw [← hT.idx] at this
    rw [hT.idx] at hsim
    exact hT.lv.sim hsim

/-- all levels unchanged -/
theorem ZG.same' {buf : Array UInt8} {md t : Nat} {p q : Parser} {gs : List Grp} (hZ : ZG buf md t p gs)
    (hs : Shape q) (he : q.err = .none) (fr : p.Frame q) (hu : q.used = p.used) (hd : q.depth = p.depth)
    (hg : ∀ j, q.getLvl j = p.getLvl j) : ZG buf md t q gs :=
  hZ.same hs he fr hu hd (p.getLvl p.lvlIdx) ⟨rfl, rfl, Or.inl rfl⟩ (fun j => by
    rw [hg j]
    split
    · rename_i h; rw [h]
    · rfl)

/-- the flags of the innermost level are never an uninitialised word -/
theorem LvOk.noJunk {buf : Array UInt8} {L : Level} {g : Grp} {D : Nat} (h : LvOk buf L g true) (hg : GrpOk D g) : NoJunk L.flags := by
  intro o a hf
  rcases h.cases hg with ⟨_, h2, _⟩ | ⟨_, _, h2, _⟩ | ⟨_, _, h2, _⟩
  · rcases h2 with h2 | h2 <;> rw [hf] at h2 <;> cases h2
  · rw [hf] at h2; cases h2
  · rw [hf] at h2; cases h2

end Binson
