/-
  The counted variants used by the driver are the API functions of the theorems (same state, same
  return value); only the callback count is extra.
-/
import Binson.Model.Counted
namespace Binson

theorem nextC_eq (p : Parser) : ((nextC p).1, (nextC p).2.1) = next p := rfl
theorem goIntoObjectC_eq (p : Parser) : ((goIntoObjectC p).1, (goIntoObjectC p).2.1) = goIntoObject p := rfl
theorem goIntoArrayC_eq (p : Parser) : ((goIntoArrayC p).1, (goIntoArrayC p).2.1) = goIntoArray p := rfl

theorem nextEnsureC_eq (p : Parser) (t : Ty) : ((nextEnsureC p t).1, (nextEnsureC p t).2.1) = nextEnsure p t := by
  unfold nextEnsureC nextEnsure nextC next
  simp only
  split
  · rfl
  · split <;> rfl

theorem leaveObjectC_eq (p : Parser) : ((leaveObjectC p).1, (leaveObjectC p).2.1) = leaveObject p := by
  unfold leaveObjectC leaveObject
  simp only
  split
  · rfl
  · split <;> rfl

theorem leaveArrayC_eq (p : Parser) : ((leaveArrayC p).1, (leaveArrayC p).2.1) = leaveArray p := by
  unfold leaveArrayC leaveArray
  simp only
  split
  · rfl
  · split <;> rfl

theorem fieldLoopC_eq (f : Nat) (p : Parser) (nm : List UInt8) (c : Nat) :
    ((fieldLoopC f p nm c).1, (fieldLoopC f p nm c).2.1) = fieldLoop f p nm := by
  induction f generalizing p c with
  | zero => rfl
  | succ f ih =>
    unfold fieldLoopC fieldLoop
    simp only
    split
    · rfl
    · split
      · rfl
      · split
        · rfl
        · exact ih _ _

theorem fieldC_eq (p : Parser) (nm : List UInt8) : ((fieldC p nm).1, (fieldC p nm).2.1) = field p nm :=
  fieldLoopC_eq _ p nm 0

theorem fieldEnsureC_eq (p : Parser) (nm : List UInt8) (t : Ty) :
    ((fieldEnsureC p nm t).1, (fieldEnsureC p nm t).2.1) = fieldEnsure p nm t := by
  unfold fieldEnsureC fieldEnsure
  have h := fieldC_eq p nm
  generalize fieldC p nm = r at h
  obtain ⟨q, ok, n⟩ := r
  simp only at h
  rw [← h]
  simp only
  split
  · rfl
  · split <;> rfl

theorem getRawC_eq (p : Parser) : ((getRawC p).1, (getRawC p).2.1, (getRawC p).2.2.1) = getRaw p := by
  unfold getRawC getRaw
  split
  · rfl
  · simp only
    split
    · split
      · rfl
      · split <;> rfl
    · split
      · split
        · rfl
        · split <;> rfl
      · rfl

end Binson
