/-
  Layer 1, part 2: what the classification stage (peek, BEGIN/END switch, `_process_one`)
  guarantees on a shaped parser.
-/
import Binson.Lemmas.Shape
namespace Binson

/-- fields a stage leaves alone -/
def Parser.SameFrame (p q : Parser) : Prop :=
  q.ptype = p.ptype ∧ q.depth = p.depth ∧ q.maxDepth = p.maxDepth ∧ q.size = p.size ∧ q.buf = p.buf ∧
  q.cur = p.cur ∧ q.levels.size = p.levels.size

theorem Parser.SameFrame.refl (p : Parser) : p.SameFrame p := ⟨rfl, rfl, rfl, rfl, rfl, rfl, rfl⟩

theorem Parser.SameFrame.trans {p q r : Parser} (a : p.SameFrame q) (b : q.SameFrame r) : p.SameFrame r := by
  obtain ⟨a1, a2, a3, a4, a5, a6, a8⟩ := a
  obtain ⟨b1, b2, b3, b4, b5, b6, b8⟩ := b
  exact ⟨b1.trans a1, b2.trans a2, b3.trans a3, b4.trans a4, b5.trans a5, b6.trans a6, b8.trans a8⟩

def Tok.isBeginEnd : Tok → Bool
  | .objBegin | .objEnd | .arrBegin | .arrEnd => true
  | _ => false

/-- the outcome of a classification that did not fail -/
structure ClsOk (p : Parser) (bc0 : Nat) (c : Cls) : Prop where
  shape : Shape c.p
  err : c.p.err = p.err
  frame : p.SameFrame c.p
  span : c.span.off + c.span.len ≤ p.size
  notFieldName : c.tok ≠ .fieldName
  be : c.tok.isBeginEnd = true → c.p.used = p.used ∧ c.bc = bc0 ∧ c.span = ⟨p.used, 1⟩ ∧ p.used < p.size
  sc : c.tok.isBeginEnd = false → c.p.used = p.used + c.bc ∧ 1 ≤ c.bc ∧ c.p.levels = p.levels

/-- the outcome of a failed classification -/
structure ClsErr (p : Parser) (c : Cls) : Prop where
  shape : Shape c.p
  err : c.p.err ≠ .none
  frame : p.SameFrame c.p
  levels : c.p.levels = p.levels

theorem shape_used1 {p : Parser} (h : Shape p) (hu : p.used < p.size) : Shape { p with used := p.used + 1 } :=
  h.withUsed _ (by omega)

theorem pow_mod4_le (b0 : UInt8) : 2 ^ (b0.toNat % 4) ≤ 8 := by
  have : b0.toNat % 4 < 4 := Nat.mod_lt _ (by decide)
  have : b0.toNat % 4 = 0 ∨ b0.toNat % 4 = 1 ∨ b0.toNat % 4 = 2 ∨ b0.toNat % 4 = 3 := by omega
  rcases this with e | e | e | e <;> rw [e] <;> decide

/-- `_process_one` -/
theorem processOne_spec {p : Parser} (h : Shape p) (hu : p.used < p.size) (b0 : UInt8) (bc0 : Nat) :
    ((processOne p b0).tok = .error ∧ ClsErr p (processOne p b0)) ∨
    ((processOne p b0).tok ≠ .error ∧ (processOne p b0).tok.isBeginEnd = false ∧ ClsOk p bc0 (processOne p b0)) := by
  have h1 := shape_used1 h hu
  have hsz := h.hsz
  have fr1 : p.SameFrame { p with used := p.used + 1 } := ⟨rfl, rfl, rfl, rfl, rfl, rfl, rfl⟩
  unfold processOne
  simp only
  split
  · -- boolean
    right
    refine ⟨by simp, rfl, ⟨h1, rfl, fr1, by (try simp) <;> omega, by simp, by simp [Tok.isBeginEnd], fun _ => ⟨rfl, by simp, rfl⟩⟩⟩
  · split
    · -- double
      by_cases hf : p.used + 1 + 8 ≤ p.size
      · rw [consume_ok h1 8 false (by omega) hf]
        right
        simp only [Bool.not_true, Bool.false_eq_true, if_false]
        refine ⟨by simp, rfl, ⟨h1.withUsed _ (by simpa using hf), rfl, ⟨rfl, rfl, rfl, rfl, rfl, rfl, rfl⟩, by (try simp) <;> omega, by simp,
          by simp [Tok.isBeginEnd], fun _ => ⟨by (try simp) <;> omega, by simp, rfl⟩⟩⟩
      · rw [consume_fail h1 8 false (by omega) hf]
        left
        simp only [Bool.not_false, if_true]
        exact ⟨by simp, ⟨h1.withErr _ (by simp), by simp, ⟨rfl, rfl, rfl, rfl, rfl, rfl, rfl⟩, rfl⟩⟩
    · split
      · -- integer
        have hw : 2 ^ (b0.toNat % 4) ≤ 8 := pow_mod4_le b0
        have hw1 : 1 ≤ 2 ^ (b0.toNat % 4) := Nat.one_le_two_pow
        by_cases hf : p.used + 1 + 2 ^ (b0.toNat % 4) ≤ p.size
        · rw [consume_ok h1 _ false (by omega) hf]
          right
          simp only [Bool.not_true, Bool.false_eq_true, if_false]
          refine ⟨by simp, rfl, ⟨h1.withUsed _ (by simpa using hf), rfl, ⟨rfl, rfl, rfl, rfl, rfl, rfl, rfl⟩, by (try simp) <;> omega, by simp,
            by simp [Tok.isBeginEnd], fun _ => ⟨by (try simp) <;> omega, by simp, rfl⟩⟩⟩
        · rw [consume_fail h1 _ false (by omega) hf]
          left
          simp only [Bool.not_false, if_true]
          exact ⟨by simp, ⟨h1.withErr _ (by simp), by simp, ⟨rfl, rfl, rfl, rfl, rfl, rfl, rfl⟩, rfl⟩⟩
      · split
        · -- string / bytes
          have hw : 2 ^ (b0.toNat % 4) ≤ 8 := pow_mod4_le b0
          have hw1 : 1 ≤ 2 ^ (b0.toNat % 4) := Nat.one_le_two_pow
          by_cases hf : p.used + 1 + 2 ^ (b0.toNat % 4) ≤ p.size
          · rw [consume_ok h1 _ false (by omega) hf]
            simp only [Bool.not_true, Bool.false_eq_true, if_false]
            have h2 : Shape { p with used := p.used + 1 + 2 ^ (b0.toNat % 4) } := h.withUsed _ hf
            have htb : ({ p with used := p.used + 1 + 2 ^ (b0.toNat % 4) } : Parser).touchBuf (p.used + 1) (2 ^ (b0.toNat % 4))
                = { p with used := p.used + 1 + 2 ^ (b0.toNat % 4) } :=
              touchBuf_of_le (by rw [show ({ p with used := p.used + 1 + 2 ^ (b0.toNat % 4) } : Parser).buf.size = p.buf.size from rfl, h.hbs]; omega)
            simp only [htb]
            split
            · left
              exact ⟨by simp, ⟨h2.withErr _ (by simp), by simp, ⟨rfl, rfl, rfl, rfl, rfl, rfl, rfl⟩, rfl⟩⟩
            · split
              · left
                exact ⟨by simp, ⟨h2.withErr _ (by simp), by simp, ⟨rfl, rfl, rfl, rfl, rfl, rfl, rfl⟩, rfl⟩⟩
              · rename_i hlen
                generalize hL : parseIntVal { p with used := p.used + 1 + 2 ^ (b0.toNat % 4) } ⟨p.used + 1, 2 ^ (b0.toNat % 4)⟩ = L at hlen ⊢
                have hlen' : 0 ≤ L ∧ L ≤ 2147483647 := by simpa using hlen
                have hLn : L.toNat < 2 ^ 63 := by omega
                by_cases hf2 : p.used + 1 + 2 ^ (b0.toNat % 4) + L.toNat ≤ p.size
                · rw [consume_ok h2 _ false hLn hf2]
                  right
                  simp only [Bool.not_true, Bool.false_eq_true, if_false]
                  refine ⟨by split <;> simp, by split <;> rfl, ⟨h2.withUsed _ (by simpa using hf2), rfl, ⟨rfl, rfl, rfl, rfl, rfl, rfl, rfl⟩,
                    by (try simp) <;> omega, by split <;> simp, by split <;> simp [Tok.isBeginEnd], fun _ => ⟨by (try simp) <;> omega, by (try simp) <;> omega, rfl⟩⟩⟩
                · rw [consume_fail h2 _ false hLn hf2]
                  left
                  simp only [Bool.not_false, if_true]
                  exact ⟨by simp, ⟨h2.withErr _ (by simp), by simp, ⟨rfl, rfl, rfl, rfl, rfl, rfl, rfl⟩, rfl⟩⟩
          · rw [consume_fail h1 _ false (by omega) hf]
            left
            simp only [Bool.not_false, if_true]
            exact ⟨by simp, ⟨h1.withErr _ (by simp), by simp, ⟨rfl, rfl, rfl, rfl, rfl, rfl, rfl⟩, rfl⟩⟩
        · left
          exact ⟨by simp, ⟨h1.withErr _ (by simp), by simp, ⟨rfl, rfl, rfl, rfl, rfl, rfl, rfl⟩, rfl⟩⟩

theorem SpansOk_ctype {n : Nat} {l : Level} (h : l.SpansOk n) (t : Ty) : ({ l with ctype := t } : Level).SpansOk n := h

/-- the classification stage -/
theorem classify_spec {p : Parser} (h : Shape p) (he : p.err = .none) (bc0 : Nat) :
    ((classify p bc0).tok = .error ∧ ClsErr p (classify p bc0)) ∨
    ((classify p bc0).tok ≠ .error ∧ ClsOk p bc0 (classify p bc0)) := by
  have hli := h.lvlIdx_lt
  unfold classify
  simp only [touchLvl_of_lt hli]
  by_cases hu : p.used + 1 ≤ p.size
  · rw [consume_ok h 1 true (by omega) hu]
    simp only [Bool.not_true, Bool.false_eq_true, if_false, if_true]
    have htb : p.touchBuf p.used 1 = p := touchBuf_of_le (by rw [h.hbs]; omega)
    simp only [htb]
    have hlt : p.used < p.size := by omega
    have hsp := h.hsp he p.lvlIdx
    split
    · right
      refine ⟨by simp, ⟨h.setLvl _ hli (SpansOk_ctype hsp _), ?_, ?_, by (try simp) <;> omega, by simp, ?_, by simp [Tok.isBeginEnd]⟩⟩
      · exact (setLvl_fields _ hli).2.2.2.2.2.2.1
      · have f := setLvl_fields (p := p) { p.getLvl p.lvlIdx with ctype := .object } hli
        exact ⟨f.1, f.2.1, f.2.2.1, f.2.2.2.1, f.2.2.2.2.2.1, f.2.2.2.2.2.2.2.1, f.2.2.2.2.2.2.2.2.2.2⟩
      · intro _
        exact ⟨(setLvl_fields _ hli).2.2.2.2.1, rfl, rfl, hlt⟩
    · split
      · right
        exact ⟨by simp, ⟨h, rfl, Parser.SameFrame.refl p, by (try simp) <;> omega, by simp, fun _ => ⟨rfl, rfl, rfl, hlt⟩, by simp [Tok.isBeginEnd]⟩⟩
      · split
        · right
          refine ⟨by simp, ⟨h.setLvl _ hli (SpansOk_ctype hsp _), ?_, ?_, by (try simp) <;> omega, by simp, ?_, by simp [Tok.isBeginEnd]⟩⟩
          · exact (setLvl_fields _ hli).2.2.2.2.2.2.1
          · have f := setLvl_fields (p := p) { p.getLvl p.lvlIdx with ctype := .array } hli
            exact ⟨f.1, f.2.1, f.2.2.1, f.2.2.2.1, f.2.2.2.2.2.1, f.2.2.2.2.2.2.2.1, f.2.2.2.2.2.2.2.2.2.2⟩
          · intro _
            exact ⟨(setLvl_fields _ hli).2.2.2.2.1, rfl, rfl, hlt⟩
        · split
          · right
            exact ⟨by simp, ⟨h, rfl, Parser.SameFrame.refl p, by (try simp) <;> omega, by simp, fun _ => ⟨rfl, rfl, rfl, hlt⟩, by simp [Tok.isBeginEnd]⟩⟩
          · rcases processOne_spec h hlt (p.byte p.used) bc0 with ⟨e, c⟩ | ⟨e, _, c⟩
            · exact Or.inl ⟨e, c⟩
            · exact Or.inr ⟨e, c⟩
  · rw [consume_fail h 1 true (by omega) hu]
    simp only [Bool.not_false, if_true]
    left
    exact ⟨by simp, ⟨h.withErr _ (by simp), by simp, ⟨rfl, rfl, rfl, rfl, rfl, rfl, rfl⟩, rfl⟩⟩

end Binson
