/-
  Layer 1, part 5: every public parser call preserves the shape invariant (hence never sets the
  out-of-bounds ghost) and hands back only spans inside the buffer.
-/
import Binson.Lemmas.Advance
namespace Binson

/-- a parser object as the caller provides it: any contents at all (uninitialised memory or a
    previous use), with a state array of `maxDepth ≥ 1` entries -/
structure Alloc (g : Parser) : Prop where
  hlv : g.levels.size = g.maxDepth
  hmd : 1 ≤ g.maxDepth
  hnf : g.fault = false
  hno : g.oof = false

theorem Shape.alloc {p : Parser} (h : Shape p) : Alloc p := ⟨h.hlv, h.hmd, h.hnf, h.hno⟩

theorem getLvl_of_replicate (q : Parser) (n : Nat) (h : q.levels = Array.replicate n Level.zero) (i : Nat) :
    q.getLvl i = Level.zero := by
  unfold Parser.getLvl
  rw [h]
  simp only [Array.getD_eq_getD_getElem?]
  by_cases hi : i < n
  · simp [hi]
  · simp [hi]

/-- `binson_parser_reset` from any allocated object whose buffer fields are consistent -/
theorem reset_shape_gen (p : Parser) (ha : Alloc p) (hbs : p.buf.size = p.size) (hsz : p.size < 2 ^ 63)
    (hold : p.err = .none → p.ptype ≠ 1 → p.ptype ≠ 2 → ∀ i, (p.getLvl i).SpansOk p.size) :
    Shape (reset p).1 := by
  have hmd := ha.hmd
  unfold reset
  rw [if_neg (by omega)]
  simp only
  have base : ∀ (e : Err), e ≠ .none → Shape { p with depth := 0, used := 0, cur := 0, err := e } := by
    intro e he
    exact ⟨ha.hlv, ha.hmd, by simp, by simp [Parser.lvlIdx], by simp, hbs, hsz, ha.hnf, ha.hno, fun h => absurd h he⟩
  split
  · exact base _ (by simp)
  · rename_i h2
    have h2' : 2 ≤ p.size := by simpa using h2
    have tb1 : ({ p with depth := 0, used := 0, cur := 0 } : Parser).touchBuf 0 1 = { p with depth := 0, used := 0, cur := 0 } :=
      touchBuf_of_le (by simp [hbs]; omega)
    have tb2 : ({ p with depth := 0, used := 0, cur := 0 } : Parser).touchBuf (p.size - 1) 1 = { p with depth := 0, used := 0, cur := 0 } :=
      touchBuf_of_le (by simp [hbs]; omega)
    simp only [tb1, tb2]
    have wipeOk : ∀ d, d ≤ 1 → Shape (wipe { p with depth := 0, used := 0, cur := 0 } d) := by
      intro d hd
      unfold wipe
      refine ⟨by simp [ha.hlv], ha.hmd, by simp; omega, ?_, by simp, hbs, hsz, by simp [ha.hnf, ha.hlv], ha.hno, ?_⟩
      · simp only [Parser.lvlIdx]; split <;> omega
      · intro _ i
        rw [getLvl_of_replicate _ p.levels.size rfl]; exact Level.zero_spansOk _
    split
    · split
      · exact base _ (by simp)
      · exact wipeOk 0 (by omega)
    · split
      · split
        · exact base _ (by simp)
        · exact wipeOk 1 (by omega)
      · rename_i h1 h2
        exact ⟨ha.hlv, ha.hmd, by simp, by simp [Parser.lvlIdx], by simp, hbs, hsz, ha.hnf, ha.hno, fun he i => hold he h1 h2 i⟩

theorem reset_shape (p : Parser) (h : Shape p) : Shape (reset p).1 :=
  reset_shape_gen p h.alloc h.hbs h.hsz (fun he _ _ i => h.hsp he i)

/-- `binson_parser_init_object` / `_array` on ANY allocated object, accepted or rejected -/
theorem init_shape (g : Parser) (ha : Alloc g) (buf : Array UInt8) (t : Nat) (ht : t = 1 ∨ t = 2) (hb : buf.size < 2 ^ 63) :
    Shape (init g buf t).1 := by
  unfold init
  rw [if_neg (by have := ha.hmd; omega)]
  apply reset_shape_gen
  · exact ⟨ha.hlv, ha.hmd, ha.hnf, ha.hno⟩
  · rfl
  · exact hb
  · intro _ h1 h2; rcases ht with rfl | rfl
    · exact absurd rfl h1
    · exact absurd rfl h2

end Binson

namespace Binson

theorem adv_shape (p : Parser) (s : Scan) (sn : Option (List UInt8)) (h : Shape p) : Shape (advance p s sn).p :=
  (advance_spec p s sn h).shape

theorem verify_shape (p : Parser) (h : Shape p) : Shape (verify p).1 := by
  unfold verify
  have hr := reset_shape p h
  generalize reset p = r at hr
  obtain ⟨q, ok⟩ := r
  simp only at hr ⊢
  cases ok
  · exact hr
  · simp only [Bool.not_true, Bool.false_eq_true, if_false]
    have ha := adv_shape q .verify none hr
    split
    · exact reset_shape _ ha
    · exact ha

theorem next_shape (p : Parser) (h : Shape p) : Shape (next p).1 := adv_shape p .value none h
theorem goIntoObject_shape (p : Parser) (h : Shape p) : Shape (goIntoObject p).1 := adv_shape p .enterObj none h
theorem goIntoArray_shape (p : Parser) (h : Shape p) : Shape (goIntoArray p).1 := adv_shape p .enterArr none h

theorem nextEnsure_shape (p : Parser) (t : Ty) (h : Shape p) : Shape (nextEnsure p t).1 := by
  unfold nextEnsure
  have := next_shape p h
  generalize next p = r at this
  obtain ⟨q, ok⟩ := r
  simp only at this ⊢
  cases ok
  · exact this
  · simp only [Bool.not_true, Bool.false_eq_true, if_false]
    split
    · exact this.withErr _ (by simp)
    · exact this

theorem leaveObject_shape (p : Parser) (h : Shape p) : Shape (leaveObject p).1 := by
  unfold leaveObject
  simp only [touchLvl_of_lt h.lvlIdx_lt]
  split
  · exact h
  · have := adv_shape p .leaveObj none h
    split <;> exact this

theorem leaveArray_shape (p : Parser) (h : Shape p) : Shape (leaveArray p).1 := by
  unfold leaveArray
  simp only [touchLvl_of_lt h.lvlIdx_lt]
  split
  · exact h
  · have := adv_shape p .leaveArr none h
    split <;> exact this

theorem fieldLoop_shape (f : Nat) (p : Parser) (nm : List UInt8) (h : Shape p) : Shape (fieldLoop f p nm).1 := by
  induction f generalizing p with
  | zero => exact h
  | succ f ih =>
    unfold fieldLoop
    have ha := adv_shape p .value (some nm) h
    simp only
    split
    · exact ha
    · split
      · exact ha
      · split
        · exact ha
        · exact ih _ ha

theorem field_shape (p : Parser) (nm : List UInt8) (h : Shape p) : Shape (field p nm).1 := fieldLoop_shape _ p nm h

theorem fieldEnsure_shape (p : Parser) (nm : List UInt8) (t : Ty) (h : Shape p) : Shape (fieldEnsure p nm t).1 := by
  unfold fieldEnsure
  have := field_shape p nm h
  generalize field p nm = r at this
  obtain ⟨q, ok⟩ := r
  simp only at this ⊢
  cases ok
  · exact this
  · simp only [Bool.not_true, Bool.false_eq_true, if_false]
    split
    · exact this
    · exact this.withErr _ (by simp)

theorem getName_shape (p : Parser) (h : Shape p) : Shape (getName p).1 := by
  unfold getName
  split
  · exact h
  · split
    · exact h
    · exact h.withErr _ (by simp)

theorem getRaw_shape (p : Parser) (h : Shape p) : Shape (getRaw p).1 := by
  unfold getRaw
  split
  · exact h
  · simp only
    split
    · have h1 := adv_shape p .enterObj none h
      split
      · exact h1
      · have h2 := adv_shape _ .leaveObj none h1
        split <;> exact h2
    · split
      · have h1 := adv_shape p .enterArr none h
        split
        · exact h1
        · have h2 := adv_shape _ .leaveArr none h1
          split <;> exact h2
      · exact h

/-- arguments the API admits: `init_object`/`init_array` pass 1 / 2; a buffer is smaller than 2^63 bytes -/
def Op.Valid : Op → Prop
  | .init buf t => (t = 1 ∨ t = 2) ∧ buf.size < 2 ^ 63
  | _ => True

/-- every public call keeps the parser in shape -/
theorem step_shape (p : Parser) (op : Op) (h : Shape p) (hv : op.Valid) : Shape (step p op).1 := by
  cases op with
  | init buf t => exact init_shape p h.alloc buf t hv.1 hv.2
  | reset => exact reset_shape p h
  | verify => exact verify_shape p h
  | next => exact next_shape p h
  | nextEnsure t => exact nextEnsure_shape p t h
  | field nm => exact field_shape p nm h
  | fieldEnsure nm t => exact fieldEnsure_shape p nm t h
  | goIntoObject => exact goIntoObject_shape p h
  | goIntoArray => exact goIntoArray_shape p h
  | leaveObject => exact leaveObject_shape p h
  | leaveArray => exact leaveArray_shape p h
  | getName => exact getName_shape p h
  | getRaw => exact getRaw_shape p h
  | getDepth => exact h
  | getType => exact h
  | getStringBbuf => exact h
  | getBytesBbuf => exact h
  | getInteger => exact h
  | getBoolean => exact h
  | getDouble => exact h
  | stringEquals s => exact h

theorem run_shape (ops : List Op) (p : Parser) (h : Shape p) (hv : ∀ op ∈ ops, op.Valid) : Shape (run p ops) := by
  induction ops generalizing p with
  | nil => exact h
  | cons op r ih =>
    unfold run
    simp only [List.foldl_cons]
    exact ih _ (step_shape p op h (hv op (List.mem_cons_self))) (fun o ho => hv o (List.mem_cons_of_mem _ ho))

/-- a returned span lies inside the buffer -/
def Ret.SpansInside (size : Nat) : Ret → Prop
  | .span (some s) => s.off + s.len ≤ size
  | .raw true s => s.off + s.len ≤ size
  | _ => True

theorem frame_adv (p : Parser) (s : Scan) (sn : Option (List UInt8)) (h : Shape p) : (advance p s sn).p.size = p.size :=
  (advance_spec p s sn h).frame.1

theorem getName_size (p : Parser) : (getName p).1.size = p.size := by
  unfold getName
  split
  · rfl
  · split <;> rfl

theorem step_spans (p : Parser) (op : Op) (h : Shape p) (hv : op.Valid) : (step p op).2.SpansInside (step p op).1.size := by
  cases op with
  | getName =>
    show Ret.SpansInside (getName p).1.size (Ret.span (getName p).2)
    rw [getName_size]
    unfold getName
    split
    · trivial
    · rename_i he
      have he' : p.err = .none := by simpa using he
      split
      · rename_i s hs
        exact (h.hsp he' p.cur).1 s hs
      · trivial
  | getStringBbuf =>
    show Ret.SpansInside _ (Ret.span (getStringBbuf p))
    unfold getStringBbuf
    split
    · rename_i hc
      unfold curSpan
      split
      · rename_i s hs
        exact (h.hsp hc.1 p.cur).2 s hs
      · trivial
    · trivial
  | getBytesBbuf =>
    show Ret.SpansInside _ (Ret.span (getBytesBbuf p))
    unfold getBytesBbuf
    split
    · rename_i hc
      unfold curSpan
      split
      · rename_i s hs
        exact (h.hsp hc.1 p.cur).2 s hs
      · trivial
    · trivial
  | getRaw =>
    have hsh := getRaw_shape p h
    show Ret.SpansInside (getRaw p).1.size (Ret.raw (getRaw p).2.1 (getRaw p).2.2)
    have key : ∀ (q : Parser) (pos : Nat), Shape q → pos ≤ p.size → q.size = p.size →
        Ret.SpansInside q.size (Ret.raw true ⟨pos, q.used - pos⟩) := by
      intro q pos hq hpos hs
      show pos + (q.used - pos) ≤ q.size
      have := hq.hus; omega
    have hus := h.hus
    unfold getRaw
    split
    · trivial
    · simp only
      split
      · have h1 := adv_shape p .enterObj none h
        have s1 := frame_adv p .enterObj none h
        split
        · trivial
        · have h2 := adv_shape _ .leaveObj none h1
          have s2 := frame_adv _ .leaveObj none h1
          split
          · trivial
          · exact key _ _ h2 hus (s2.trans s1)
      · split
        · have h1 := adv_shape p .enterArr none h
          have s1 := frame_adv p .enterArr none h
          split
          · trivial
          · have h2 := adv_shape _ .leaveArr none h1
            have s2 := frame_adv _ .leaveArr none h1
            split
            · trivial
            · exact key _ _ h2 hus (s2.trans s1)
        · trivial
  | _ => trivial

end Binson
