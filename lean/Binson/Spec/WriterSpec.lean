/-
  Spec layer: what one writer call must contribute to the destination, written from the encoding
  rules of Spec/Value.lean (not from the writer model's `packInt`). The driver's C04/C05 oracle
  evaluates these on the implementation's answers; Lemmas/OracleSpec.lean proves them equal to the
  definitions the writer theorems are stated with.
-/
import Binson.Spec.Value
import Binson.Model.Writer
namespace Binson

/-- spec encoding of one write call (independent of the writer model's `packInt`) -/
def specPieces : WOp → List Bytes
  | .objBegin => [[0x40]] | .objEnd => [[0x41]] | .arrBegin => [[0x42]] | .arrEnd => [[0x43]]
  | .bool b => [[if b then 0x44 else 0x45]]
  | .int v => [encInt 0x10 v]
  | .dbl bits => [0x46 :: leBytes 8 bits]
  | .str s => if s.isEmpty then [encInt 0x14 0] else [encInt 0x14 s.length, s]
  | .bytes s => if s.isEmpty then [encInt 0x18 0] else [encInt 0x18 s.length, s]
  | .raw s => [s]

/-- everything written before the first piece that did not fit -/
def fitted (cap : Nat) : Nat → List Bytes → Bytes
  | _, [] => []
  | used, p :: r => if used + p.length ≤ cap then p ++ fitted cap (used + p.length) r else []

end Binson
