/-
  Layer 4, corollaries, top: C08 ⇐ — on bytes that verify accepts, every protocol-following
  traversal succeeds: no call raises an error, every `go_into_*` / `leave_*` returns true, every
  `get_raw` on a container returns true, and when the root has been left the machine's root is
  closed at the end of the buffer (`RootClosed`, the hypothesis of the ⇒ direction `stream_sound`).
  The corollaries for C07 are in `NavCorLookup.lean`, for C11 in `NavCorRaw.lean`.
-/
import Binson.Lemmas.NavCorLookup
import Binson.Lemmas.NavCorRaw
import Binson.Lemmas.NavCorClosed
namespace Binson

/-! ### the reference cursor: which calls succeed, when the root is left -/

theorem Cursor.step_done_of_not_leave (c : Cursor) (op : COp) (h1 : op ≠ .leaveObj) (h2 : op ≠ .leaveArr) :
    (c.step op).1.done = c.done := by
  cases op with
  | leaveObj => exact absurd rfl h1
  | leaveArr => exact absurd rfl h2
  | next =>
    simp only [Cursor.step]
    split
    · rfl
    · split <;> rfl
  | enterObj => simp only [Cursor.step]; split <;> rfl
  | enterArr => simp only [Cursor.step]; split <;> rfl
  | raw =>
    simp only [Cursor.step]
    split
    · split <;> rfl
    · rfl
  | field nm =>
    simp only [Cursor.step]
    split
    · rfl
    · split
      · split <;> rfl
      · rfl

/-- an allowed `go_into_*` / `leave_*` succeeds on the reference cursor -/
theorem Cursor.step_ok_of_allowed (c : Cursor) (op : COp) (ha : c.allowed op = true)
    (h : op = .enterObj ∨ op = .enterArr ∨ op = .leaveObj ∨ op = .leaveArr) : (c.step op).2.ok = true := by
  rcases h with rfl | rfl | rfl | rfl
  · simp only [Cursor.allowed] at ha
    simp only [Cursor.step]
    cases hp : c.pending with
    | none => rw [hp] at ha; cases ha
    | some n => rfl
  · simp only [Cursor.allowed] at ha
    simp only [Cursor.step]
    cases hp : c.pending with
    | none => rw [hp] at ha; cases ha
    | some n => rfl
  · simp only [Cursor.allowed] at ha
    simp only [Cursor.step]
    cases hf : c.frames with
    | nil => rw [hf] at ha; cases ha
    | cons f fs => rfl
  · simp only [Cursor.allowed] at ha
    simp only [Cursor.step]
    cases hf : c.frames with
    | nil => rw [hf] at ha; cases ha
    | cons f fs => rfl

/-! ### what holds for every reachable pair in addition to the agreement relation -/

/-- the invariant behind `reachable_closed` / `reachable_err` -/
def NavGood (buf : Array UInt8) (md t : Nat) (p : Parser) (c : Cursor) : Prop :=
  Agree p c ∧ Inv buf md t p ∧ p.err = .none ∧ (c.done = true → RootClosed p)

theorem NavGood.step {buf : Array UInt8} {md : Nat} {root : Root} {p : Parser} {c : Cursor}
    (hG : NavGood buf md (rootNum root) p c) (op : COp) (ha : c.allowed op = true) :
    NavGood buf md (rootNum root) (machNav p op).1 (c.step op).1 := by
  obtain ⟨hA, hI, _, _⟩ := hG
  obtain ⟨hO, hA'⟩ := agree_step hA op ha
  have hI' := machNav_inv p op hI
  refine ⟨hA', hI', hO.2.2.1, ?_⟩
  intro hd
  have hpt : (machNav p op).1.ptype = rootNum root := hI'.hpt
  cases hA with
  | start root' v hc hF hmd hwf =>
    subst hc
    exfalso
    rcases start_allowed root' v op ha with ⟨rfl, _⟩ | ⟨rfl, _⟩
    · rw [Cursor.step_done_of_not_leave _ _ (by simp) (by simp)] at hd; cases hd
    · rw [Cursor.step_done_of_not_leave _ _ (by simp) (by simp)] at hd; cases hd
  | done hf hd0 =>
    cases op <;> simp [Cursor.allowed, Cursor.pending, hf, hd0] at ha
  | run L Ls pend h =>
    have hpt0 : p.ptype = rootNum root := hI.hpt
    by_cases h1 : op = .leaveObj
    · subst h1
      obtain ⟨e1, e2, e3⟩ := h.navc_leaveObj_closed ha hd
      have hm : (machNav p .leaveObj).1 = (leaveObject p).1 := rfl
      rw [hm] at hpt ⊢
      refine ⟨e1, Or.inl ⟨?_, e2⟩⟩
      cases root with
      | object => exact hpt
      | array => have := h.aroot.mpr hpt0; rw [e3] at this; cases this
    · by_cases h2 : op = .leaveArr
      · subst h2
        obtain ⟨e1, e2, e3, e4⟩ := h.navc_leaveArr_closed ha hd
        have hm : (machNav p .leaveArr).1 = (leaveArray p).1 := rfl
        rw [hm] at hpt ⊢
        refine ⟨e1, Or.inr ⟨?_, e2, e3⟩⟩
        cases root with
        | array => exact hpt
        | object =>
          have := h.aroot.mp e4
          rw [hpt0] at this; cases this
      · rw [Cursor.step_done_of_not_leave _ _ h1 h2, h.done] at hd; cases hd

theorem reachable_good {g : Parser} {root : Root} {v : Value} {p : Parser} {c : Cursor}
    (h : Reachable g root v p c) : NavGood (encode v).toArray g.maxDepth (rootNum root) p c := by
  obtain ⟨hS, ops, e⟩ := h
  have h0 : NavGood (encode v).toArray g.maxDepth (rootNum root) (navStart g root v).1 (navStart g root v).2 :=
    ⟨hS.agree_start, hS.inv_start, hS.fresh.err, fun hd => by cases hd⟩
  have := navRun_induct (NavGood (encode v).toArray g.maxDepth (rootNum root)) (fun p c op hG ha => hG.step op ha) ops _ h0
  rw [← e] at this
  exact this

/-- no reachable machine state has an error latched, a fault or exhausted fuel -/
theorem reachable_err {g : Parser} {root : Root} {v : Value} {p : Parser} {c : Cursor}
    (h : Reachable g root v p c) : p.err = .none ∧ p.fault = false ∧ p.oof = false :=
  ⟨(reachable_good h).2.2.1, (reachable_inv h).shape.hnf, (reachable_inv h).shape.hno⟩

/-- when the reference cursor has left the root, the machine has closed it at the end of the buffer -/
theorem reachable_closed {g : Parser} {root : Root} {v : Value} {p : Parser} {c : Cursor}
    (h : Reachable g root v p c) (hd : c.done = true) : RootClosed p :=
  (reachable_good h).2.2.2 hd

/-- one protocol-following call from a reachable pair: what C08 ⇐ asks of it -/
theorem reachable_call_ok {g : Parser} {root : Root} {v : Value} {p : Parser} {c : Cursor}
    (h : Reachable g root v p c) (op : COp) (ha : c.allowed op = true) :
    (machNav p op).1.err = .none ∧
    ((op = .enterObj ∨ op = .enterArr ∨ op = .leaveObj ∨ op = .leaveArr) → (machNav p op).2.1 = true) ∧
    (op = .raw → ∀ n, c.cur = some n → (n.item.ty = .object ∨ n.item.ty = .array) →
      (machNav p op).2.1 = true ∧ (machNav p op).2.2 = some ⟨n.item.start, n.item.len⟩) := by
  obtain ⟨o1, o2, o3, _⟩ := reachable_obs h op ha
  refine ⟨o3, fun hop => by rw [o1]; exact Cursor.step_ok_of_allowed c op ha hop, ?_⟩
  intro hop n hcur hty
  subst hop
  obtain ⟨s1, _⟩ := Cursor.step_raw_cont hcur hty
  rw [s1] at o1 o2
  exact ⟨o1, o2⟩

/-! ### a fresh parser object is determined by its parameters: verify gives back what init gave -/

theorem Fresh.unique {W W' : Parser} {buf : Array UInt8} {t md : Nat} (h : Fresh W buf t md) (h' : Fresh W' buf t md) : W = W' := by
  have hl : W.levels = W'.levels := by
    apply Array.ext
    · rw [h.shape.hlv, h'.shape.hlv, h.maxDepth, h'.maxDepth]
    · intro i h1 h2
      have a := h.zeros i
      have b := h'.zeros i
      unfold Parser.getLvl at a b
      rw [Array.getD_eq_getD_getElem?, Array.getElem?_eq_getElem h1] at a
      rw [Array.getD_eq_getD_getElem?, Array.getElem?_eq_getElem h2] at b
      simp only [Option.getD_some] at a b
      rw [a, b]
  have hc : W.cur = W'.cur := by
    rw [h.shape.hcur, h'.shape.hcur]; unfold Parser.lvlIdx; rw [h.depth, h'.depth]
  have hs : W.size = W'.size := by rw [← h.shape.hbs, ← h'.shape.hbs, h.buf, h'.buf]
  have e1 := h.ptype.trans h'.ptype.symm
  have e2 := h.depth.trans h'.depth.symm
  have e3 := h.maxDepth.trans h'.maxDepth.symm
  have e4 := h.used.trans h'.used.symm
  have e5 := h.buf.trans h'.buf.symm
  have e6 := h.err.trans h'.err.symm
  have e7 := h.shape.hnf.trans h'.shape.hnf.symm
  have e8 := h.shape.hno.trans h'.shape.hno.symm
  cases W; cases W'
  simp only at hl hc hs e1 e2 e3 e4 e5 e6 e7 e8
  simp only [Parser.mk.injEq]
  exact ⟨e1, e2, e3, hs, e4, e5, e6, hl, hc, e7, e8⟩

/-- a successful `verify` leaves the parser object exactly as `init` made it: whatever is proved
    about traversals after `init` holds for traversals after `init` + `verify` -/
theorem verify_gives_back {g : Parser} {root : Root} {v : Value} (hS : NavSetup g root v) :
    (verify (navStart g root v).1).1 = (navStart g root v).1 := by
  have hF := hS.fresh
  have := (verify_fresh root hF hS.md v (by simp) hS.wf).2.2
  exact this.unique hF

/-! ### C08 ⇐ -/

/-- **C08 ⇐ (9)** If `init` + `verify` accept arbitrary bytes `buf`, then `buf` is the canonical
    encoding of a well-formed document `v` fitting the depth configuration, `verify` hands the parser
    object back as `init` made it, and for EVERY protocol-following call sequence `ops` (each call
    allowed by the reference cursor at its turn; `navRun` stops at the first call that is not):
    * the machine agrees with the reference cursor on every observable of every call (`NavOk`);
    * the state reached has no error latched (so no call of the sequence left one), no fault;
    * if the sequence has left the root (`c.done`), the machine's root is closed at the end of the
      buffer (`RootClosed`: exactly the hypothesis of the ⇒ direction `stream_sound`);
    * every further allowed call leaves `err = NONE`; every allowed `go_into_*` / `leave_*` returns
      true; `get_raw` on a container returns true with the container's span.
    As every prefix of a protocol-following sequence is one, this covers every call of the sequence. -/
theorem protocol_run_ok (g : Parser) (ha : Alloc g) (hmd : g.maxDepth ≤ 255) (root : Root) (buf : Array UInt8)
    (hsz : buf.size < 2 ^ 63) (hi : (init g buf (rootNum root)).2 = true)
    (hv : (verify (init g buf (rootNum root)).1).2.1 = true) :
    ∃ v, buf = (encode v).toArray ∧ wfDoc root g.maxDepth v = true ∧
      (verify (init g buf (rootNum root)).1).1 = (init g buf (rootNum root)).1 ∧
      ∀ ops : List COp,
        NavOk (init g buf (rootNum root)).1 (Cursor.start root v) ops ∧
        ∀ p c, (p, c) = navRun ((init g buf (rootNum root)).1, Cursor.start root v) ops →
          p.err = .none ∧ p.fault = false ∧ p.oof = false ∧
          (c.done = true → RootClosed p) ∧
          ∀ op, c.allowed op = true →
            (machNav p op).1.err = .none ∧
            ((op = .enterObj ∨ op = .enterArr ∨ op = .leaveObj ∨ op = .leaveArr) → (machNav p op).2.1 = true) ∧
            (op = .raw → ∀ n, c.cur = some n → (n.item.ty = .object ∨ n.item.ty = .array) →
              (machNav p op).2.1 = true ∧ (machNav p op).2.2 = some ⟨n.item.start, n.item.len⟩) := by
  obtain ⟨v, hwf, henc⟩ := (verify_iff g ha hmd buf hsz root).mp ⟨hi, hv⟩
  have hb : buf = (encode v).toArray := by rw [henc]
  subst hb
  have hS : NavSetup g root v := ⟨ha, hmd, hwf, by simpa using hsz⟩
  refine ⟨v, rfl, hwf, verify_gives_back hS, fun ops => ⟨nav_refines g ha hmd root v hwf hS.sz ops, ?_⟩⟩
  intro p c e
  have hR : Reachable g root v p c := ⟨hS, ops, e⟩
  obtain ⟨e1, e2, e3⟩ := reachable_err hR
  exact ⟨e1, e2, e3, reachable_closed hR, fun op hop => reachable_call_ok hR op hop⟩

/-- the two directions of C08 together, for a complete protocol-following traversal: the traversal
    that leaves the root ends with the root closed and no error — which is what `stream_sound`
    needs to conclude that verify accepts. (Non-vacuity of the ⇒ hypothesis on accepted bytes.) -/
theorem protocol_run_closed (g : Parser) (ha : Alloc g) (hmd : g.maxDepth ≤ 255) (root : Root) (v : Value)
    (hwf : wfDoc root g.maxDepth v = true) (hsz : (encode v).length < 2 ^ 63) (ops : List COp)
    (hd : (navRun (navStart g root v) ops).2.done = true) :
    (navRun (navStart g root v) ops).1.err = .none ∧ RootClosed (navRun (navStart g root v) ops).1 := by
  have hR : Reachable g root v (navRun (navStart g root v) ops).1 (navRun (navStart g root v) ops).2 :=
    ⟨⟨ha, hmd, hwf, hsz⟩, ops, rfl⟩
  exact ⟨(reachable_err hR).1, reachable_closed hR hd⟩

/-! ### non-vacuity: the hypotheses are jointly satisfiable (`{"a":{},"b":true}`, max_depth 2, from a garbage parser object) -/

def navcDemo : Value := .obj (.cons [0x61] (.obj .nil) (.cons [0x62] (.bool true) .nil))

example : NavSetup (garbageParser 2) .object navcDemo :=
  ⟨⟨by decide, by decide, rfl, rfl⟩, by decide, by decide, by decide⟩

/-- inside the root object, before any lookup; at the container "a" after looking it up; root left at the end -/
example :
    (navRun (navStart (garbageParser 2) .object navcDemo) [.enterObj]).2.inObject = true ∧
    (navRun (navStart (garbageParser 2) .object navcDemo) [.enterObj]).2.namesAhead = [[0x61], [0x62]] ∧
    ((navRun (navStart (garbageParser 2) .object navcDemo) [.enterObj, .field [0x61]]).2.cur.map (fun n => n.item.ty)) = some .object ∧
    (navRun (navStart (garbageParser 2) .object navcDemo) [.enterObj, .field [0x61], .raw, .field [0x62], .leaveObj]).2.done = true := by
  decide

end Binson
