/-
  C03 — a full traversal decodes exactly what the bytes encode, in place.

  Two complementary statements.
  (1) `c03_every_position`: at EVERY position any protocol-following traversal reaches (full traversals
      included), after a successful next / lookup all getters answer the decoded item (`ItemMatches`,
      Lemmas/NavDefs.lean): the type tag; the name as the exact sub-span of the input holding it; string
      and bytes values as exact sub-spans (no copy: spans are (offset, length) into the input buffer);
      integers of all four widths sign-extended to the encoded value; doubles bit-identical; booleans;
      the getters of every OTHER type return their neutral result (0, false, NULL); string_equals is
      true exactly when the value is a string with exactly the given bytes. This is the navigation
      refinement read for the getters.
  (2) `c03_full_traversal_decodes`: the canonical full traversal written as a program (the next-driven
      recursion of the C++ class, Model/Cpp.lean: next, get_name, get_type, typed getter, go_into, leave,
      error check after each step) rebuilds EXACTLY the tree the bytes encode, every field and element
      in order, from any parser object.
-/
import Binson.Lemmas.Nav
import Binson.Lemmas.Walk
namespace Binson

theorem c03_every_position (g : Parser) (ha : Alloc g) (hmd : g.maxDepth ≤ 255) (root : Root) (v : Value)
    (hwf : wfDoc root g.maxDepth v = true) (hsz : (encode v).length < 2 ^ 63) (ops : List COp) :
    NavOk (init g (encode v).toArray (rootNum root)).1 (Cursor.start root v) ops :=
  nav_refines g ha hmd root v hwf hsz ops

/-- what `NavOk` says at one position, spelled out for the getters -/
theorem c03_getters_at (p : Parser) (c : Cursor) (op : COp) (ops : List COp) (h : NavOk p c (op :: ops)) (ha : c.allowed op = true)
    (it : Item) (hit : (c.step op).2.item = some it) :
    let q := (machNav p op).1
    getType q = it.ty ∧
    (∀ nm s, it.name = some (nm, s) → getName q = (q, some s) ∧ q.slice s = nm ∧ s.off + s.len ≤ q.size) ∧
    getInteger q = (match it.val with | .int v => v | _ => 0) ∧
    getBoolean q = (match it.val with | .bool b => b | _ => false) ∧
    getDouble q = (match it.val with | .dbl d => d | _ => 0) ∧
    getStringBbuf q = (match it.ty, it.val with | .string, .span s => some s | _, _ => none) ∧
    getBytesBbuf q = (match it.ty, it.val with | .bytes, .span s => some s | _, _ => none) ∧
    (∀ s, it.val = .span s → q.slice s = it.payload ∧ s.off + s.len ≤ q.size) ∧
    (∀ s, stringEquals q s = decide (it.ty = .string ∧ it.payload = s)) := by
  have hm := (h ha).2.2.2.2.2.2.1 it hit
  exact ⟨hm.ty, hm.name, hm.int, hm.bool, hm.dbl, hm.str, hm.bytes, hm.payload, hm.streq⟩

/-- the full traversal program rebuilds the tree (object documents, any depth configuration <= 255,
    from any shaped parser object over the bytes) -/
theorem c03_full_traversal_decodes (p : Parser) (hs : Shape p) (fs : Fields) (md : Nat)
    (hbuf : p.buf = (encode (.obj fs)).toArray) (hpt : p.ptype = 1) (hmd : p.maxDepth = md) (hmd255 : md ≤ 255)
    (hwf : wfDoc .object md (.obj fs) = true) :
    cppDeserializeP p = .ok fs :=
  cppDesP_history_free p hs fs md hbuf hpt hmd hmd255 hwf

/-- and conversely, on ARBITRARY bytes: if the traversal program returns a tree at all, the bytes are
    exactly the canonical encoding of that tree -/
theorem c03_full_traversal_exact (W : Parser) (hs : Shape W) (hpt : W.ptype = 1) (hmd255 : W.maxDepth ≤ 255) (fs : Fields) :
    cppDeserializeP W = .ok fs ↔ (wfDoc .object W.maxDepth (.obj fs) = true ∧ encode (.obj fs) = W.buf.toList) :=
  cppDesP_iff W hs hpt hmd255 fs

end Binson
