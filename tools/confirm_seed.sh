#!/bin/sh
# tools/confirm_seed.sh <out_dir with patch.diff, demo.c|demo.cpp, build.txt> : confirm a seeded change in a scratch
# worktree: patch applies, the pinned suite still passes with it, the demo passes without it and fails with it.
set -u
OUT=$1
W=$(mktemp -d /var/tmp/seedwt.XXXXXX); rmdir "$W"
git -C /repo worktree add -q --detach "$W" HEAD || exit 2
trap 'git -C /repo worktree remove --force "$W" >/dev/null 2>&1; rm -rf "$W" "$W"_b' EXIT
git -C "$W" apply "$OUT/patch.diff" || { echo "PATCH DOES NOT APPLY"; exit 2; }
cmake -G Ninja -S "$W" -B "$W"_b -DCMAKE_BUILD_TYPE=RelWithDebInfo -DBUILD_TESTS=ON -DWITH_PRINT=ON -DWITH_CPP=ON -DCMAKE_C_FLAGS=-Wno-error >/dev/null 2>&1 && cmake --build "$W"_b >/dev/null 2>&1 || { echo "BUILD FAILS WITH CHANGE"; exit 2; }
ctest --test-dir "$W"_b -j8 2>&1 | tail -3 | head -1
DEMO=$(ls "$OUT"/demo.c "$OUT"/demo.cpp 2>/dev/null | head -1)
build() { # $1 = source root, $2 = output
  case "$DEMO" in
    *.cpp) g++ -std=gnu++14 -w -g -fsanitize=address,undefined -fno-sanitize-recover=all -DBINSON_PARSER_WITH_PRINT -I"$1/include" "$DEMO" "$1/src/binson.cpp" -x c "$1/src/binson_parser.c" "$1/src/binson_writer.c" -o "$2" ;;
    *) gcc -std=gnu99 -w -g -fsanitize=address,undefined -fno-sanitize-recover=all -DBINSON_PARSER_WITH_PRINT -I"$1/include" "$DEMO" "$1/src/binson_parser.c" "$1/src/binson_writer.c" -o "$2" ;;
  esac
}
build /repo "$W"_b/demo_clean && "$W"_b/demo_clean >/dev/null 2>&1; echo "demo on clean tree: exit $?"
build "$W" "$W"_b/demo_mut && "$W"_b/demo_mut >/dev/null 2>&1; echo "demo with change:   exit $?"
