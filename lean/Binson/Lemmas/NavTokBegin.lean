/-
  Layer 4, part 4: one loop iteration on a container BEGIN token, stated over the outcome of the
  two flag blocks: the container is entered (scan word permitting) or the loop stops in front of it.
-/
import Binson.Lemmas.NavTok
namespace Binson

/-- `{` in value position, entered -/
theorem iter_objBegin_enter {st : LoopSt} {sn : Option (List UInt8)} {oa od : Nat} (hsh : Shape st.p) (he : st.p.err = .none)
    (hd1 : 1 ≤ st.p.depth) (hz : st.p.getLvl st.p.depth = Level.zero)
    (hmd : st.p.maxDepth ≤ 255) (hdm : st.p.depth < st.p.maxDepth)
    (hcl : classify st.p st.bc = ⟨.objBegin, ⟨st.p.used, 1⟩, st.bc,
      st.p.setLvl st.p.lvlIdx { st.p.getLvl st.p.lvlIdx with ctype := .object }⟩)
    (hlt : st.p.used < st.p.size)
    (lv1 lv2 : Level) (scan2 : Option Scan)
    (hob : objBlock { st.p.getLvl st.p.lvlIdx with ctype := .object } .objBegin = some (lv1, .objBegin))
    (hab : arrBlock lv1 .objBegin (decide (oa = lv1.ad ∧ od = st.p.depth)) st.scan = (lv2, scan2))
    (hhas : has scan2 [.verify, .enterObj, .value, .leaveArr, .leaveObj] = true) :
    ∃ st', iter st sn oa od = (st', outOf (clear scan2 .enterObj)) ∧
      StepRes st st' 1 (clear scan2 .enterObj) (st.p.depth + 1)
        (fun i => if i = st.p.depth then freshObjLevel else if i = st.p.lvlIdx then lv2 else st.p.getLvl i) := by
  have hli := hsh.lvlIdx_lt
  have hidx : st.p.lvlIdx = st.p.depth - 1 := Parser.lvlIdx_of_pos hd1
  have hspl := hsh.hsp he st.p.lvlIdx
  obtain ⟨s1, s2, _, s4, s5, s6, s7, s8, s9, s10, s11⟩ :=
    setLvl_ok (p0 := st.p) hsh (Parser.Frame.refl _) { st.p.getLvl st.p.lvlIdx with ctype := .object } hli (SpansOk_of_fields rfl rfl hspl)
  have hgq : ∀ i, (st.p.setLvl st.p.lvlIdx { st.p.getLvl st.p.lvlIdx with ctype := .object }).getLvl i =
      if i = st.p.lvlIdx then { st.p.getLvl st.p.lvlIdx with ctype := .object } else st.p.getLvl i :=
    fun i => getLvl_setLvl _ hli i
  generalize hqdef : st.p.setLvl st.p.lvlIdx { st.p.getLvl st.p.lvlIdx with ctype := .object } = q at hcl s1 s2 s4 s5 s6 s7 s8 s9 s10 s11 hgq
  have hqi : q.lvlIdx = st.p.lvlIdx := by unfold Parser.lvlIdx; rw [s5]
  have hqg : q.getLvl q.lvlIdx = { st.p.getLvl st.p.lvlIdx with ctype := .object } := by rw [hqi, hgq]; simp
  have hli' : st.p.lvlIdx < q.levels.size := by rw [s9]; exact hli
  obtain ⟨o1, o2, _, _, _⟩ := objBlock_spec hob
  have ab := arrBlock_spec lv1 .objBegin (decide (oa = lv1.ad ∧ od = st.p.depth)) st.scan
  rw [hab] at ab
  obtain ⟨a1, a2, _, _⟩ := ab
  unfold iter
  simp only [hcl, show Tok.objBegin ≠ Tok.error by decide, if_false]
  rw [hqg, hob]
  simp only [s5, hab, hqi]
  show ∃ st', caseObjBegin _ _ _ _ _ = (st', _) ∧ _
  unfold caseObjBegin
  rw [if_pos hhas]
  -- the outer level written back
  have hspo : lv2.SpansOk q.size := by rw [s8]; exact SpansOk_of_fields (a1.trans o1) (a2.trans o2) hspl
  obtain ⟨t1, t2, _, t4, t5, t6, t7, t8, t9, t10, t11⟩ := setLvl_ok (p0 := st.p) s1 s2 lv2 hli' hspo
  have hgw : ∀ i, (q.setLvl st.p.lvlIdx lv2).getLvl i = if i = st.p.lvlIdx then lv2 else st.p.getLvl i := by
    intro i
    rw [getLvl_setLvl _ hli' i]
    split
    · rfl
    · rename_i hne; rw [hgq]; simp [hne]
  generalize hwdef : q.setLvl st.p.lvlIdx lv2 = w at t1 t2 t4 t5 t6 t7 t8 t9 t10 t11 hgw
  dsimp only
  have hcond : w.depth < 255 ∧ w.depth < w.maxDepth := by
    rw [t5, s5, t11, s11]; omega
  rw [if_pos hcond]
  have hdw : w.depth = st.p.depth := by rw [t5, s5]
  have hn1 : Shape { w with used := w.used + 1, depth := w.depth + 1, cur := w.depth + 1 - 1 } := by
    refine t1.update ⟨rfl, rfl, rfl, rfl, rfl⟩ t1.hnf t1.hno (by simp; omega) (by simp [Parser.lvlIdx]) (by simp; rw [t4, s4, t8, s8]; omega) ?_
    intro e i; exact t1.hsp e i
  have hcur : ({ w with used := w.used + 1, depth := w.depth + 1, cur := w.depth + 1 - 1 } : Parser).cur
      < ({ w with used := w.used + 1, depth := w.depth + 1, cur := w.depth + 1 - 1 } : Parser).levels.size := hn1.cur_lt
  rw [touchLvl_of_lt hcur]
  have hne : ({ w with used := w.used + 1, depth := w.depth + 1, cur := w.depth + 1 - 1 } : Parser).err = .none := by
    show w.err = .none; rw [t6, s6]; exact he
  have hcd : w.depth + 1 - 1 = st.p.depth := by rw [hdw]; omega
  have hzero : ({ w with used := w.used + 1, depth := w.depth + 1, cur := w.depth + 1 - 1 } : Parser).getLvl (w.depth + 1 - 1) = Level.zero := by
    show w.getLvl (w.depth + 1 - 1) = Level.zero
    rw [hcd, hgw]
    have : st.p.depth ≠ st.p.lvlIdx := by omega
    simp only [this, if_false]
    exact hz
  dsimp only
  rw [hzero]
  rw [finish_go' _ _ ({ w with used := w.used + 1, depth := w.depth + 1, cur := w.depth + 1 - 1 }) _ _ _ hcur hne]
  obtain ⟨u1, u2, _, u4, u5, u6, u7, u8, u9, u10, u11⟩ :=
    setLvl_ok (p0 := st.p) hn1 (t2.trans ⟨rfl, rfl, rfl, rfl, rfl⟩) { Level.zero with flags := .expField } hcur
      (SpansOk_of_fields rfl rfl (Level.zero_spansOk _))
  have hgf : ∀ i, (({ w with used := w.used + 1, depth := w.depth + 1, cur := w.depth + 1 - 1 } : Parser).setLvl (w.depth + 1 - 1)
      { Level.zero with flags := .expField }).getLvl i =
      if i = st.p.depth then freshObjLevel else if i = st.p.lvlIdx then lv2 else st.p.getLvl i := by
    intro i
    have := getLvl_setLvl (p := ({ w with used := w.used + 1, depth := w.depth + 1, cur := w.depth + 1 - 1 } : Parser))
      { Level.zero with flags := .expField } hcur i
    rw [this, hcd]
    split
    · rfl
    · show w.getLvl i = _
      rw [hgw]
  refine ⟨_, rfl, StepRes.ofEq (P := (({ w with used := w.used + 1, depth := w.depth + 1, cur := w.depth + 1 - 1 } : Parser).setLvl (w.depth + 1 - 1)
      { Level.zero with flags := .expField })) rfl rfl u1 (u6.trans hne) ?_ ?_ u2 hgf⟩
  · rw [u4]; show w.used + 1 = _; rw [t4, s4]
  · rw [u5]; show w.depth + 1 = _; rw [hdw]

/-- `{` in value position, not entered: the loop stops in front of it, the level expects a value again -/
theorem iter_objBegin_noenter {st : LoopSt} {sn : Option (List UInt8)} {oa od : Nat} (hsh : Shape st.p) (he : st.p.err = .none)
    (hcl : classify st.p st.bc = ⟨.objBegin, ⟨st.p.used, 1⟩, st.bc,
      st.p.setLvl st.p.lvlIdx { st.p.getLvl st.p.lvlIdx with ctype := .object }⟩)
    (lv1 lv2 : Level) (scan2 : Option Scan)
    (hob : objBlock { st.p.getLvl st.p.lvlIdx with ctype := .object } .objBegin = some (lv1, .objBegin))
    (hab : arrBlock lv1 .objBegin (decide (oa = lv1.ad ∧ od = st.p.depth)) st.scan = (lv2, scan2))
    (hhas : has scan2 [.verify, .enterObj, .value, .leaveArr, .leaveObj] = false) :
    ∃ st', iter st sn oa od = (st', outOf scan2) ∧
      StepRes st st' 0 scan2 st.p.depth
        (fun i => if i = st.p.lvlIdx then (if lv2.flags = .expField then { lv2 with flags := .expValue } else lv2) else st.p.getLvl i) := by
  have hli := hsh.lvlIdx_lt
  have hspl := hsh.hsp he st.p.lvlIdx
  obtain ⟨s1, s2, _, s4, s5, s6, s7, s8, s9, s10, s11⟩ :=
    setLvl_ok (p0 := st.p) hsh (Parser.Frame.refl _) { st.p.getLvl st.p.lvlIdx with ctype := .object } hli (SpansOk_of_fields rfl rfl hspl)
  have hgq : ∀ i, (st.p.setLvl st.p.lvlIdx { st.p.getLvl st.p.lvlIdx with ctype := .object }).getLvl i =
      if i = st.p.lvlIdx then { st.p.getLvl st.p.lvlIdx with ctype := .object } else st.p.getLvl i :=
    fun i => getLvl_setLvl _ hli i
  generalize hqdef : st.p.setLvl st.p.lvlIdx { st.p.getLvl st.p.lvlIdx with ctype := .object } = q at hcl s1 s2 s4 s5 s6 s7 s8 s9 s10 s11 hgq
  have hqi : q.lvlIdx = st.p.lvlIdx := by unfold Parser.lvlIdx; rw [s5]
  have hqg : q.getLvl q.lvlIdx = { st.p.getLvl st.p.lvlIdx with ctype := .object } := by rw [hqi, hgq]; simp
  have hli' : st.p.lvlIdx < q.levels.size := by rw [s9]; exact hli
  have hqe : q.err = .none := by rw [s6]; exact he
  obtain ⟨o1, o2, _, _, _⟩ := objBlock_spec hob
  have ab := arrBlock_spec lv1 .objBegin (decide (oa = lv1.ad ∧ od = st.p.depth)) st.scan
  rw [hab] at ab
  obtain ⟨a1, a2, _, _⟩ := ab
  unfold iter
  simp only [hcl, show Tok.objBegin ≠ Tok.error by decide, if_false]
  rw [hqg, hob]
  simp only [s5, hab, hqi]
  show ∃ st', caseObjBegin _ _ _ _ _ = (st', _) ∧ _
  unfold caseObjBegin
  rw [if_neg (by rw [hhas]; simp)]
  dsimp only
  generalize hL : (if lv2.flags = Flags.expField then ({ lv2 with flags := .expValue } : Level) else lv2) = L
  have hLs : L.SpansOk q.size := by
    rw [s8, ← hL]
    split
    · exact SpansOk_of_fields (a1.trans o1) (a2.trans o2) hspl
    · exact SpansOk_of_fields (a1.trans o1) (a2.trans o2) hspl
  rw [finish_go' _ _ q _ _ _ hli' hqe]
  obtain ⟨t1, t2, _, t4, t5, t6, _, _, _, _, _⟩ := setLvl_ok (p0 := st.p) s1 s2 L hli' hLs
  have hgw : ∀ i, (q.setLvl st.p.lvlIdx L).getLvl i = if i = st.p.lvlIdx then L else st.p.getLvl i := by
    intro i
    rw [getLvl_setLvl _ hli' i]
    split
    · rfl
    · rename_i hne; rw [hgq]; simp [hne]
  exact ⟨_, rfl, StepRes.ofEq (P := q.setLvl st.p.lvlIdx L) rfl rfl t1 (t6.trans hqe) (t4.trans s4) (t5.trans s5) t2 hgw⟩

/-- `[` in value position, entered -/
theorem iter_arrBegin_enter {st : LoopSt} {sn : Option (List UInt8)} {oa od : Nat} (hsh : Shape st.p) (he : st.p.err = .none)
    (hcl : classify st.p st.bc = ⟨.arrBegin, ⟨st.p.used, 1⟩, st.bc,
      st.p.setLvl st.p.lvlIdx { st.p.getLvl st.p.lvlIdx with ctype := .array }⟩)
    (hlt : st.p.used < st.p.size)
    (lv1 lv2 : Level) (scan2 : Option Scan)
    (hob : objBlock { st.p.getLvl st.p.lvlIdx with ctype := .array } .arrBegin = some (lv1, .arrBegin))
    (hab : arrBlock lv1 .arrBegin (decide (oa = lv1.ad ∧ od = st.p.depth)) st.scan = (lv2, scan2))
    (had : lv2.ad < 255)
    (hhas : has scan2 [.verify, .value, .enterArr, .leaveArr, .leaveObj] = true) :
    ∃ st', iter st sn oa od = (st', outOf (clear scan2 .enterArr)) ∧
      StepRes st st' 1 (clear scan2 .enterArr) st.p.depth
        (fun i => if i = st.p.lvlIdx then { lv2 with flags := .arr1, ad := lv2.ad + 1 } else st.p.getLvl i) := by
  have hli := hsh.lvlIdx_lt
  have hspl := hsh.hsp he st.p.lvlIdx
  obtain ⟨s1, s2, _, s4, s5, s6, s7, s8, s9, s10, s11⟩ :=
    setLvl_ok (p0 := st.p) hsh (Parser.Frame.refl _) { st.p.getLvl st.p.lvlIdx with ctype := .array } hli (SpansOk_of_fields rfl rfl hspl)
  have hgq : ∀ i, (st.p.setLvl st.p.lvlIdx { st.p.getLvl st.p.lvlIdx with ctype := .array }).getLvl i =
      if i = st.p.lvlIdx then { st.p.getLvl st.p.lvlIdx with ctype := .array } else st.p.getLvl i :=
    fun i => getLvl_setLvl _ hli i
  generalize hqdef : st.p.setLvl st.p.lvlIdx { st.p.getLvl st.p.lvlIdx with ctype := .array } = q at hcl s1 s2 s4 s5 s6 s7 s8 s9 s10 s11 hgq
  have hqi : q.lvlIdx = st.p.lvlIdx := by unfold Parser.lvlIdx; rw [s5]
  have hqg : q.getLvl q.lvlIdx = { st.p.getLvl st.p.lvlIdx with ctype := .array } := by rw [hqi, hgq]; simp
  have hli' : st.p.lvlIdx < q.levels.size := by rw [s9]; exact hli
  obtain ⟨o1, o2, _, _, _⟩ := objBlock_spec hob
  have ab := arrBlock_spec lv1 .arrBegin (decide (oa = lv1.ad ∧ od = st.p.depth)) st.scan
  rw [hab] at ab
  obtain ⟨a1, a2, _, _⟩ := ab
  unfold iter
  simp only [hcl, show Tok.arrBegin ≠ Tok.error by decide, if_false]
  rw [hqg, hob]
  simp only [s5, hab, hqi]
  show ∃ st', caseArrBegin _ _ _ _ _ = (st', _) ∧ _
  unfold caseArrBegin
  rw [if_neg (by omega : ¬ lv2.ad ≥ 255), if_pos hhas]
  dsimp only
  have hq1 : Shape { q with used := q.used + 1 } := s1.withUsed (q.used + 1) (by rw [s4, s8]; omega)
  have hqe : ({ q with used := q.used + 1 } : Parser).err = .none := by show q.err = .none; rw [s6]; exact he
  rw [finish_go' _ _ ({ q with used := q.used + 1 }) _ _ _ hli' hqe]
  have hspL : ({ lv2 with flags := .arr1, ad := lv2.ad + 1 } : Level).SpansOk ({ q with used := q.used + 1 } : Parser).size := by
    show Level.SpansOk q.size _
    rw [s8]; exact SpansOk_of_fields (a1.trans o1) (a2.trans o2) hspl
  obtain ⟨t1, t2, _, t4, t5, t6, _, _, _, _, _⟩ :=
    setLvl_ok (p0 := st.p) hq1 (s2.trans ⟨rfl, rfl, rfl, rfl, rfl⟩) _ hli' hspL
  have hgf : ∀ i, (({ q with used := q.used + 1 } : Parser).setLvl st.p.lvlIdx { lv2 with flags := .arr1, ad := lv2.ad + 1 }).getLvl i =
      if i = st.p.lvlIdx then { lv2 with flags := .arr1, ad := lv2.ad + 1 } else st.p.getLvl i := by
    intro i
    rw [getLvl_setLvl_used q (q.used + 1) st.p.lvlIdx _ hli' i]
    split
    · rfl
    · rename_i hne; rw [hgq]; simp [hne]
  refine ⟨_, rfl, StepRes.ofEq (P := (({ q with used := q.used + 1 } : Parser).setLvl st.p.lvlIdx { lv2 with flags := .arr1, ad := lv2.ad + 1 }))
    rfl rfl t1 (t6.trans hqe) ?_ (t5.trans s5) t2 hgf⟩
  rw [t4]; show q.used + 1 = _; rw [s4]

/-- `[` in value position, not entered -/
theorem iter_arrBegin_noenter {st : LoopSt} {sn : Option (List UInt8)} {oa od : Nat} (hsh : Shape st.p) (he : st.p.err = .none)
    (hcl : classify st.p st.bc = ⟨.arrBegin, ⟨st.p.used, 1⟩, st.bc,
      st.p.setLvl st.p.lvlIdx { st.p.getLvl st.p.lvlIdx with ctype := .array }⟩)
    (lv1 lv2 : Level) (scan2 : Option Scan)
    (hob : objBlock { st.p.getLvl st.p.lvlIdx with ctype := .array } .arrBegin = some (lv1, .arrBegin))
    (hab : arrBlock lv1 .arrBegin (decide (oa = lv1.ad ∧ od = st.p.depth)) st.scan = (lv2, scan2))
    (had : lv2.ad < 255)
    (hhas : has scan2 [.verify, .value, .enterArr, .leaveArr, .leaveObj] = false) :
    ∃ st', iter st sn oa od = (st', outOf scan2) ∧
      StepRes st st' 0 scan2 st.p.depth
        (fun i => if i = st.p.lvlIdx then (if lv2.flags = .expField then { lv2 with flags := .expValue } else lv2) else st.p.getLvl i) := by
  have hli := hsh.lvlIdx_lt
  have hspl := hsh.hsp he st.p.lvlIdx
  obtain ⟨s1, s2, _, s4, s5, s6, s7, s8, s9, s10, s11⟩ :=
    setLvl_ok (p0 := st.p) hsh (Parser.Frame.refl _) { st.p.getLvl st.p.lvlIdx with ctype := .array } hli (SpansOk_of_fields rfl rfl hspl)
  have hgq : ∀ i, (st.p.setLvl st.p.lvlIdx { st.p.getLvl st.p.lvlIdx with ctype := .array }).getLvl i =
      if i = st.p.lvlIdx then { st.p.getLvl st.p.lvlIdx with ctype := .array } else st.p.getLvl i :=
    fun i => getLvl_setLvl _ hli i
  generalize hqdef : st.p.setLvl st.p.lvlIdx { st.p.getLvl st.p.lvlIdx with ctype := .array } = q at hcl s1 s2 s4 s5 s6 s7 s8 s9 s10 s11 hgq
  have hqi : q.lvlIdx = st.p.lvlIdx := by unfold Parser.lvlIdx; rw [s5]
  have hqg : q.getLvl q.lvlIdx = { st.p.getLvl st.p.lvlIdx with ctype := .array } := by rw [hqi, hgq]; simp
  have hli' : st.p.lvlIdx < q.levels.size := by rw [s9]; exact hli
  have hqe : q.err = .none := by rw [s6]; exact he
  obtain ⟨o1, o2, _, _, _⟩ := objBlock_spec hob
  have ab := arrBlock_spec lv1 .arrBegin (decide (oa = lv1.ad ∧ od = st.p.depth)) st.scan
  rw [hab] at ab
  obtain ⟨a1, a2, _, _⟩ := ab
  unfold iter
  simp only [hcl, show Tok.arrBegin ≠ Tok.error by decide, if_false]
  rw [hqg, hob]
  simp only [s5, hab, hqi]
  show ∃ st', caseArrBegin _ _ _ _ _ = (st', _) ∧ _
  unfold caseArrBegin
  rw [if_neg (by omega : ¬ lv2.ad ≥ 255), if_neg (by rw [hhas]; simp)]
  dsimp only
  generalize hL : (if lv2.flags = Flags.expField then ({ lv2 with flags := .expValue } : Level) else lv2) = L
  have hLs : L.SpansOk q.size := by
    rw [s8, ← hL]
    split
    · exact SpansOk_of_fields (a1.trans o1) (a2.trans o2) hspl
    · exact SpansOk_of_fields (a1.trans o1) (a2.trans o2) hspl
  rw [finish_go' _ _ q _ _ _ hli' hqe]
  obtain ⟨t1, t2, _, t4, t5, t6, _, _, _, _, _⟩ := setLvl_ok (p0 := st.p) s1 s2 L hli' hLs
  have hgw : ∀ i, (q.setLvl st.p.lvlIdx L).getLvl i = if i = st.p.lvlIdx then L else st.p.getLvl i := by
    intro i
    rw [getLvl_setLvl _ hli' i]
    split
    · rfl
    · rename_i hne; rw [hgq]; simp [hne]
  exact ⟨_, rfl, StepRes.ofEq (P := q.setLvl st.p.lvlIdx L) rfl rfl t1 (t6.trans hqe) (t4.trans s4) (t5.trans s5) t2 hgw⟩

end Binson
