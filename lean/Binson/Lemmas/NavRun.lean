/-
  Layer 4, part 2: fuel-free vocabulary for the token loop. `Steps` = some number of
  continuing iterations, `Halts` = the loop returns. A halting run determines `advance`
  whatever fuel it was given (the fuel of `advance` is always sufficient, `advLoop_spec`).
-/
import Binson.Lemmas.VerifyValid
import Binson.Lemmas.NavDefs
namespace Binson

/-- `st'` is reached from `st` by continuing iterations only -/
def Steps (sn : Option (List UInt8)) (oa od : Nat) (st st' : LoopSt) : Prop :=
  ∃ n, advLoop n st sn oa od = (st', .outOfFuel)

/-- the loop started in `st` returns `b` in state `st'` -/
def Halts (sn : Option (List UInt8)) (oa od : Nat) (st st' : LoopSt) (b : Bool) : Prop :=
  ∃ n, advLoop n st sn oa od = (st', .done b)

theorem advLoop_zero (st : LoopSt) (sn : Option (List UInt8)) (oa od : Nat) :
    advLoop 0 st sn oa od = (st, .outOfFuel) := by
  unfold advLoop; rfl

theorem advLoop_stop {f : Nat} {st st' : LoopSt} {sn : Option (List UInt8)} {oa od : Nat}
    (h : iter st sn oa od = (st', .stop)) :
    advLoop (f + 1) st sn oa od = (st', .done (decide (st'.p.err = .none))) := by
  rw [advLoop, h]

theorem advLoop_split {n : Nat} {st st' : LoopSt} {sn : Option (List UInt8)} {oa od : Nat}
    (h : advLoop n st sn oa od = (st', .outOfFuel)) (f : Nat) :
    advLoop (n + f) st sn oa od = advLoop f st' sn oa od := by
  induction n generalizing st with
  | zero =>
    rw [advLoop_zero] at h
    injection h with h1 _
    rw [h1, Nat.zero_add]
  | succ n ih =>
    rw [show n + 1 + f = (n + f) + 1 by omega]
    cases hi : iter st sn oa od with
    | mk s out =>
      cases out with
      | ret b => rw [advLoop_ret hi] at h; simp at h
      | stop => rw [advLoop_stop hi] at h; simp at h
      | cont => rw [advLoop_cont hi] at h ⊢; exact ih h

theorem advLoop_mono {n : Nat} {st r : LoopSt} {b : Bool} {sn : Option (List UInt8)} {oa od : Nat}
    (h : advLoop n st sn oa od = (r, .done b)) (m : Nat) :
    advLoop m st sn oa od = (r, .done b) ∨ (advLoop m st sn oa od).2 = .outOfFuel := by
  induction n generalizing st m with
  | zero => rw [advLoop_zero] at h; simp at h
  | succ n ih =>
    cases m with
    | zero => right; rw [advLoop_zero]
    | succ m =>
      cases hi : iter st sn oa od with
      | mk s out =>
        cases out with
        | ret b' => left; rw [advLoop_ret hi] at h ⊢; exact h
        | stop => left; rw [advLoop_stop hi] at h ⊢; exact h
        | cont => rw [advLoop_cont hi] at h ⊢; exact ih h m

theorem Steps.refl (sn : Option (List UInt8)) (oa od : Nat) (st : LoopSt) : Steps sn oa od st st :=
  ⟨0, advLoop_zero _ _ _ _⟩

theorem Steps.one {sn : Option (List UInt8)} {oa od : Nat} {st st' : LoopSt}
    (h : iter st sn oa od = (st', .cont)) : Steps sn oa od st st' :=
  ⟨1, by rw [advLoop_cont h, advLoop_zero]⟩

theorem Steps.trans {sn : Option (List UInt8)} {oa od : Nat} {a b c : LoopSt}
    (h1 : Steps sn oa od a b) (h2 : Steps sn oa od b c) : Steps sn oa od a c := by
  obtain ⟨n1, e1⟩ := h1
  obtain ⟨n2, e2⟩ := h2
  exact ⟨n1 + n2, by rw [advLoop_split e1, e2]⟩

/-- the shape the pass-through lemmas deliver -/
theorem Steps.ofPass {sn : Option (List UInt8)} {oa od : Nat} {st st' : LoopSt} {n : Nat}
    (h : advLoop (n + 0) st sn oa od = advLoop 0 st' sn oa od) : Steps sn oa od st st' :=
  ⟨n, by rw [← Nat.add_zero n, h, advLoop_zero]⟩

theorem Halts.ret {sn : Option (List UInt8)} {oa od : Nat} {st st' : LoopSt} {b : Bool}
    (h : iter st sn oa od = (st', .ret b)) : Halts sn oa od st st' b :=
  ⟨1, advLoop_ret h⟩

theorem Halts.stop {sn : Option (List UInt8)} {oa od : Nat} {st st' : LoopSt}
    (h : iter st sn oa od = (st', .stop)) (he : st'.p.err = .none) : Halts sn oa od st st' true := by
  refine ⟨1, ?_⟩
  rw [advLoop_stop h]
  simp [he]

theorem Steps.halts {sn : Option (List UInt8)} {oa od : Nat} {a b c : LoopSt} {r : Bool}
    (h1 : Steps sn oa od a b) (h2 : Halts sn oa od b c r) : Halts sn oa od a c r := by
  obtain ⟨n1, e1⟩ := h1
  obtain ⟨n2, e2⟩ := h2
  exact ⟨n1 + n2, by rw [advLoop_split e1, e2]⟩

/-- a halting run is what `_advance_parsing` does -/
theorem advance_of_halts {p : Parser} (hs : Shape p) (he : p.err = .none) (scan : Scan) (sn : Option (List UInt8))
    {r : LoopSt} {b : Bool} (h : Halts sn (p.getLvl p.cur).ad p.depth ⟨p, some scan, 0, []⟩ r b) :
    (advance p scan sn).p = r.p ∧ (advance p scan sn).ret = b := by
  obtain ⟨n, hn⟩ := h
  have ls := advLoop_spec (p.size - p.used + 2) ⟨p, some scan, 0, []⟩ sn (p.getLvl p.cur).ad p.depth hs he (by simp)
  have hm := advLoop_mono hn (p.size - p.used + 2)
  unfold advance
  rw [if_neg (by simp [he])]
  simp only [touchLvl_of_lt hs.cur_lt]
  rcases hm with hm | hm
  · rw [hm]; exact ⟨rfl, rfl⟩
  · exact absurd hm ls.fuel

end Binson
