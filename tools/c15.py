"""C15: the C++ Binson class. The wrapper's logic is modelled in Lean (Model/Cpp.lean) and
compared with src/binson.cpp line by line; the spec oracle (encode / sortKeys / decodeDoc at depth
10) is evaluated on the implementation's answers. What no Lean model can exhibit - crashes, reads
of an uninitialised parser, a signal instead of std::exception - is decided by the ASan+UBSan
harness with a poisoned stack (labelled partial: runtime behaviour)."""
import os, subprocess, json, time, shutil, re

def sh(cmd, **kw): return subprocess.run(cmd, capture_output=True, text=True, **kw)

def build_cpp(chk, out):
    cobjs = []
    for c in ('binson_parser.c', 'binson_writer.c'):
        o = out + '.' + c + '.o'
        r = sh(['gcc', '-std=gnu11', '-w', '-c'] + chk.SAN + ['-DBINSON_PARSER_WITH_PRINT', '-DBINSON_VERIF', '-I', os.path.join(chk.REPO, 'include'), os.path.join(chk.REPO, 'src', c), '-o', o])
        if r.returncode != 0: return None, r.stderr[-1500:]
        cobjs.append(o)
    r = sh(['g++', '-std=gnu++14', '-w'] + chk.SAN + ['-DBINSON_PARSER_WITH_PRINT', '-DBINSON_VERIF', '-I', os.path.join(chk.REPO, 'include'),
            os.path.join(chk.ROOT, 'harness', 'drive_cpp.cpp'), os.path.join(chk.REPO, 'src', 'binson.cpp')] + cobjs + ['-o', out])
    if r.returncode != 0: return None, r.stderr[-1500:]
    return out, ''

def run(pid, tier, seed, chk):
    t0 = time.time()
    os.makedirs(chk.BUILD, exist_ok=True); os.makedirs(chk.EVID, exist_ok=True)
    rundir = os.path.join(chk.BUILD, 'run-%d' % os.getpid()); os.makedirs(rundir, exist_ok=True)
    broken = []; viols = []
    try:
        with chk.Lock('lean'):
            ok, msg = chk.regenerate()
            if not ok: broken.append('translator: ' + msg)
            dok, dlog = chk.build_driver()
            obligations, discharged, details, pb = chk.audit(pid, rundir, tier)
            broken += pb
        with chk.Lock('harness'):
            cdrive, err = chk.build_harness()
        cpp, err2 = build_cpp(chk, os.path.join(rundir, 'drive_cpp'))
        if not dok: broken.append('model driver does not build: ' + dlog[-500:])
        if not cdrive: broken.append('C harness does not build: ' + err[-500:])
        if not cpp: broken.append('C++ harness does not build against /repo: ' + err2[-500:])
        results = []
        if dok and cdrive and cpp:
            ntree = 1600 if tier == 'quick' else 48000; ndocs = 3200 if tier == 'quick' else 120000
            shards = 8 if tier == 'quick' else chk.NCPU
            procs = []
            for s in range(shards):
                base = os.path.join(rundir, 't%d' % s)
                cmd = '%s gen %d %d %s.ops %s.impl > %s.log 2>&1; echo $? > %s.rc; %s check cpp %s.ops %s.impl 40 > %s.chk 2>&1' % (cpp, seed * 1009 + s, ntree // shards, base, base, base, base, chk.DRIVER, base, base, base)
                procs.append((subprocess.Popen(['sh', '-c', cmd], env=chk.ASAN_ENV), base, ('cpp-trees', seed, ntree // shards, tier)))
                base = os.path.join(rundir, 'd%d' % s)
                cmd = '%s docs %d %d %s.ops && %s replay %s.ops %s.impl > %s.log 2>&1; echo $? > %s.rc; %s check cpp %s.ops %s.impl 40 > %s.chk 2>&1' % (cdrive, seed * 2003 + s, ndocs // shards, base, cpp, base, base, base, base, chk.DRIVER, base, base, base)
                procs.append((subprocess.Popen(['sh', '-c', cmd], env=chk.ASAN_ENV), base, ('cpp-bytes', seed, ndocs // shards, tier)))
            # corpus for the C++ class
            for i, path in enumerate(sorted(__import__('glob').glob(os.path.join(chk.ROOT, 'corpus', 'cpp', '*.txt')))):
                base = os.path.join(rundir, 'k%d' % i)
                open(base + '.ops', 'w').write(''.join(l for l in open(path) if l.strip() and not l.startswith('#')))
                cmd = '%s replay %s.ops %s.impl > %s.log 2>&1; echo $? > %s.rc; %s check cpp %s.ops %s.impl 40 > %s.chk 2>&1' % (cpp, base, base, base, base, chk.DRIVER, base, base, base)
                procs.append((subprocess.Popen(['sh', '-c', cmd], env=chk.ASAN_ENV), base, ('cpp-corpus', 0, 1, tier)))
            for p, base, job in procs:
                p.wait(); results.append(chk.collect(base, job))
            for r in results:
                if 'driver_error' in r: broken.append('driver failed: ' + r['driver_error'][-300:]); continue
                if r['gen_rc'] != 0:
                    ops = open(r['base'] + '.ops', errors='replace').read().splitlines()
                    impl = open(r['base'] + '.impl', errors='replace').read().splitlines() if os.path.exists(r['base'] + '.impl') else []
                    i = min(len(impl), len(ops) - 1)
                    viols.append({'what': 'the C++ class crashed / acted on an uninitialised object instead of throwing: ' + chk.crash_summary(r['log']), 'lines': ['C 0', ops[i] if ops else ''], 'log': r['log'][-2500:]})
                for line in r['oracle']:
                    m = re.match(r'ORACLE case=(\S+) line=(\d+) op="(.*?)" (C\d\d) (.*)', line)
                    if m and m.group(4) == 'C15': viols.append({'what': m.group(5), 'lines': ['C 0', m.group(3)], 'log': ''})
                for line in r['mismatch']: broken.append('model and implementation disagree: ' + line[:500])
        nviol = 0; rc = 0; seen = set(); known = chk.load_known()
        for v in viols:
            key = re.sub(r'[0-9a-f]{6,}', 'H', v['what'])[:70]
            if key in seen or len(seen) >= 4: continue
            seen.add(key)
            sig = chk.signature(pid, '\n'.join(v['lines'][1:]))
            k = [x for x in known if x[0] == pid and x[1] == sig]
            if k: print('KNOWN-FINDING: property=%s %s' % (pid, k[0][2] or v['what'])); continue
            body = '# property C15 violated: %s\n# signature %s\n# re-run: ./check replay-cpp <this file>\n' % (v['what'][:600].replace('\n', ' '), sig) + '\n'.join(v['lines']) + '\n' + '\n'.join('# ' + l for l in v['log'].splitlines()[:30]) + '\n'
            path = chk.write_replay(pid, 'cpp', body)
            print('VIOLATION property=%s replay=%s' % (pid, path)); print('  ' + v['what'][:400]); nviol += 1; rc = 1
        if broken and nviol == 0:
            path = chk.write_replay(pid, 'unproved', '# property C15: the following no longer checks\n' + '\n'.join('# - ' + b.replace('\n', '\n#   ') for b in broken[:10]) + '\n')
            print('VIOLATION property=%s replay=%s no-failing-input-found' % (pid, path))
            for b in broken[:4]: print('  ' + b[:400].replace('\n', ' | '))
            nviol += 1; rc = 1
        cfg = chk.PROPS.CONFIG[pid]
        chk.write_evidence(pid, tier, seed, t0, cfg, obligations, discharged, details, results, nviol, broken)
        return rc
    finally:
        shutil.rmtree(rundir, ignore_errors=True)
