/-
  Layer 4, part 16: `binson_parser_next` and `binson_parser_field` refine the cursor's `next` and
  lookup steps.
-/
import Binson.Lemmas.NavOpValue
namespace Binson

/-- packaging: a machine step and a cursor step that land in the invariant again -/
theorem obs_agree {p : Parser} {c : Cursor} {op : COp} {p' : Parser} {b : Bool} {rw : Option Span} {c' : Cursor} {res : CRes}
    (hm : machNav p op = (p', b, rw)) (hc : c.step op = (c', res)) (hb : b = res.ok)
    (hr : rw = if res.ok then res.raw else none)
    (hi : ∀ it, res.item = some it → ItemMatches p' it) {L' : RLevel} {Ls' : List RLevel} {pend' : Option Value}
    (hrun : Run p' c' L' Ls' pend') :
    Obs p c op ∧ Agree (machNav p op).1 (c.step op).1 := by
  unfold Obs
  rw [hm, hc]
  exact ⟨⟨hb, hr, hrun.err, hrun.shape.hnf, hrun.shape.hno, hrun.cdepth.symm, hi⟩, Agree.run _ _ _ hrun⟩

namespace Run

variable {p : Parser} {c : Cursor} {L : RLevel} {Ls : List RLevel} {pend : Option Value}

theorem top_obj (h : Run p c L Ls pend) (ha : L.arrs = []) : ∃ fs, L.base = some fs := by
  have hb := h.base
  cases hbase : L.base with
  | some fs => exact ⟨fs, rfl⟩
  | none =>
    cases Ls with
    | nil => exact absurd ha (hb.2 hbase)
    | cons _ _ => exact absurd hbase hb.1

theorem tail_le (h : Run p c L Ls pend) : (tailBytes (flat (L :: Ls))).length ≤ p.size := by
  cases pend with
  | none =>
    have := rem_len h.shape h.pend.1
    omega
  | some v =>
    have := rem_len h.shape h.pend.2.1
    simp only [List.length_append] at this
    omega

/-- `next` -/
theorem step_next (h : Run p c L Ls pend) : Obs p c .next ∧ Agree (machNav p .next).1 (c.step .next).1 := by
  have hm : machNav p .next = ((advance p .value none).p, (advance p .value none).ret, none) := rfl
  have hce := h.c_eq
  have hle := h.tail_le
  obtain ⟨pv, b, arrs⟩ := L
  cases arrs with
  | nil =>
    obtain ⟨fs, hb⟩ := h.top_obj rfl
    simp only at hb
    subst hb
    cases fs with
    | nil =>
      obtain ⟨e, hr⟩ := h.value_obj_nil none
      have hc : c.step .next = (mkCur c.arrayRoot p.size (flat (⟨pv, some .nil, []⟩ :: Ls)) none, ⟨false, none, none⟩) := by
        rw [hce, flat_obj]; exact step_next_obj_nil _ _ _ _
      exact obs_agree hm hc e rfl (fun it hi => by cases hi) hr
    | cons n v r =>
      obtain ⟨e, hr, hi, _⟩ := h.value_obj_read none (fun nm hnm => by cases hnm)
      have hc : c.step .next = (mkCur c.arrayRoot p.size (flat (⟨some n, some r, []⟩ :: Ls))
          (some (fieldNode (p.size - (tailBytes (flat (⟨pv, some (.cons n v r), []⟩ :: Ls))).length) n v)),
          ⟨true, some (fieldNode (p.size - (tailBytes (flat (⟨pv, some (.cons n v r), []⟩ :: Ls))).length) n v).item, none⟩) := by
        rw [flat_obj] at hle
        rw [hce, flat_obj, flat_obj]
        exact step_next_obj_cons _ _ _ _ _ _ _ hle
      exact obs_agree hm hc e rfl (fun it hit => by injection hit with hit; rw [← hit]; exact hi) hr
  | cons xs ar =>
    cases xs with
    | nil =>
      obtain ⟨e, hr⟩ := h.value_arr_nil none
      have hc : c.step .next = (mkCur c.arrayRoot p.size (flat (⟨pv, b, .nil :: ar⟩ :: Ls)) none, ⟨false, none, none⟩) := by
        rw [hce, flat_arr]; exact step_next_arr_nil _ _ _ _
      exact obs_agree hm hc e rfl (fun it hi => by cases hi) hr
    | cons v r =>
      obtain ⟨e, hr, hi⟩ := h.value_arr_read none
      have hc : c.step .next = (mkCur c.arrayRoot p.size (flat (⟨pv, b, r :: ar⟩ :: Ls))
          (some (annotate none (p.size - (tailBytes (flat (⟨pv, b, .cons v r :: ar⟩ :: Ls))).length) v)),
          ⟨true, some (annotate none (p.size - (tailBytes (flat (⟨pv, b, .cons v r :: ar⟩ :: Ls))).length) v).item, none⟩) := by
        rw [flat_arr] at hle
        rw [hce, flat_arr, flat_arr]
        exact step_next_arr_cons _ _ _ _ _ _ hle
      exact obs_agree hm hc e rfl (fun it hit => by injection hit with hit; rw [← hit]; exact hi) hr

theorem fieldLoop_succ (f : Nat) (p : Parser) (nm : List UInt8) :
    fieldLoop (f + 1) p nm =
      if !(advance p .value (some nm)).ret then ((advance p .value (some nm)).p, false) else
      if cmpBytes nm (curNameBytes (advance p .value (some nm)).p) = 0 then ((advance p .value (some nm)).p, true)
      else if cmpBytes nm (curNameBytes (advance p .value (some nm)).p) < 0 then ((advance p .value (some nm)).p, false)
      else fieldLoop f (advance p .value (some nm)).p nm := by
  rw [fieldLoop]

/-- the lookup loop against the cursor's `dropWhile` -/
theorem field_loop (nm : List UInt8) : ∀ (fs : Fields) (f : Nat) (p : Parser) (c : Cursor) (pv : Option Bytes) (Ls : List RLevel)
    (pend : Option Value), Run p c ⟨pv, some fs, []⟩ Ls pend → (encFields fs).length + 1 ≤ f →
    (fieldLoop f p nm).2 = (c.step (.field nm)).2.ok ∧ (c.step (.field nm)).2.raw = none ∧
    (∀ it, (c.step (.field nm)).2.item = some it → ItemMatches (fieldLoop f p nm).1 it) ∧
    ∃ L' pend', Run (fieldLoop f p nm).1 (c.step (.field nm)).1 L' Ls pend'
  | .nil, f, p, c, pv, Ls, pend, h, hf => by
    obtain ⟨f', rfl⟩ : ∃ f', f = f' + 1 := ⟨f - 1, by omega⟩
    obtain ⟨e, hr⟩ := h.value_obj_nil (some nm)
    have hc : c.step (.field nm) = (mkCur c.arrayRoot p.size (flat (⟨pv, some .nil, []⟩ :: Ls)) none, ⟨false, none, none⟩) := by
      rw [h.c_eq, flat_obj]; exact step_field_nil _ _ _ _ _
    rw [fieldLoop_succ, e, hc]
    exact ⟨rfl, rfl, (fun it hi => by cases hi), _, _, hr⟩
  | .cons n v r, f, p, c, pv, Ls, pend, h, hf => by
    obtain ⟨f', rfl⟩ : ∃ f', f = f' + 1 := ⟨f - 1, by omega⟩
    have hle := h.tail_le
    rw [flat_obj] at hle
    by_cases hov : cmpBytes n nm > 0
    · obtain ⟨e, hr⟩ := h.value_obj_over nm hov
      have hlt : bytesLt n nm = false := by
        cases hb : bytesLt n nm with
        | false => rfl
        | true => have := cmpBytes_neg_of_lt n nm hb; omega
      have hne : n ≠ nm := by
        intro he; have := (cmpBytes_eq_zero n nm).mpr he; omega
      have hc : c.step (.field nm) = (mkCur c.arrayRoot p.size (flat (⟨pv, some (.cons n v r), []⟩ :: Ls)) none, ⟨false, none, none⟩) := by
        rw [h.c_eq, flat_obj]; exact step_field_over _ _ _ _ _ _ _ _ hlt hne
      rw [fieldLoop_succ, e, hc]
      exact ⟨rfl, rfl, (fun it hi => by cases hi), _, _, hr⟩
    · obtain ⟨e, hr, hi, hn⟩ := h.value_obj_read (some nm) (fun nm' hnm' => by injection hnm' with hnm'; subst hnm'; exact hov)
      rw [fieldLoop_succ, e, hn]
      simp only [Bool.not_true, Bool.false_eq_true, if_false]
      by_cases h0 : cmpBytes nm n = 0
      · have hnm : nm = n := (cmpBytes_eq_zero nm n).mp h0
        subst hnm
        have hc : c.step (.field nm) = (mkCur c.arrayRoot p.size (flat (⟨some nm, some r, []⟩ :: Ls))
            (some (fieldNode (p.size - (tailBytes (flat (⟨pv, some (.cons nm v r), []⟩ :: Ls))).length) nm v)),
            ⟨true, some (fieldNode (p.size - (tailBytes (flat (⟨pv, some (.cons nm v r), []⟩ :: Ls))).length) nm v).item, none⟩) := by
          rw [h.c_eq, flat_obj, flat_obj]
          exact step_field_found _ _ _ _ _ _ _ hle
        rw [if_pos h0, hc]
        exact ⟨rfl, rfl, (fun it hit => by injection hit with hit; rw [← hit]; exact hi), _, _, hr⟩
      · rw [if_neg h0]
        have hpos : ¬ cmpBytes nm n < 0 := by
          intro hlt; exact hov ((cmpBytes_pos_iff n nm).mpr hlt)
        rw [if_neg hpos]
        have hlt : bytesLt n nm = true := by
          apply (cmpBytes_pos_lt nm n).mp; omega
        have hc : c.step (.field nm) = (mkCur c.arrayRoot p.size (flat (⟨some n, some r, []⟩ :: Ls))
            (some (fieldNode (p.size - (tailBytes (flat (⟨pv, some (.cons n v r), []⟩ :: Ls))).length) n v))).step (.field nm) := by
          rw [h.c_eq, flat_obj, flat_obj]
          exact step_field_skip _ _ _ _ _ _ _ _ _ hlt hle
        rw [hc]
        have hh1 : 1 ≤ hdrLen n.length := by unfold hdrLen; omega
        exact field_loop nm r f' (advance p .value (some nm)).p _ (some n) Ls _ hr
          (by rw [encFields_cons_length] at hf; omega)

/-- field lookup -/
theorem step_field (h : Run p c L Ls pend) (nm : Bytes) (ha : c.allowed (.field nm) = true) :
    Obs p c (.field nm) ∧ Agree (machNav p (.field nm)).1 (c.step (.field nm)).1 := by
  have hm : machNav p (.field nm) = ((fieldLoop (p.size + 2) p nm).1, (fieldLoop (p.size + 2) p nm).2, none) := rfl
  obtain ⟨pv, b, arrs⟩ := L
  cases arrs with
  | cons xs ar =>
    rw [h.c_eq, flat_arr, allowed_field] at ha
    cases ha
  | nil =>
    obtain ⟨fs, hb⟩ := h.top_obj rfl
    simp only at hb
    subst hb
    have hle := h.tail_le
    rw [tail_obj] at hle
    simp only [List.length_append] at hle
    obtain ⟨h1, h2, h3, L', pend', h4⟩ := field_loop nm fs (p.size + 2) p c pv Ls pend h (by omega)
    exact obs_agree hm (rfl : c.step (.field nm) = ((c.step (.field nm)).1, (c.step (.field nm)).2)) h1
      (show none = if (c.step (.field nm)).2.ok then (c.step (.field nm)).2.raw else none by rw [h2]; simp) h3 h4

end Run

end Binson
