/-
  C17 — no heap, no recursion, no writable globals: footprint fixed by the caller.
  Statements are about the static model regenerated from the compiled objects on every run
  (Binson/Generated/Static.lean: one `Static.Cfg` per {gcc -O0,-O2,-Os} × {with, without print}).
-/
import Binson.Generated.Static
import Binson.Lemmas.StaticGraph
namespace Binson
open Static

/-- every regenerated configuration passes the decidable checks: edges strictly decrease the
    rank certificate, the stack-bound certificate is consistent, every frame is static with no
    variable-size object, no allocator is referenced, no writable static data exists -/
theorem c17_static_facts : ∀ c ∈ Gen.staticCfgs, c.ok = true := by decide

theorem c17_six_configurations : Gen.staticCfgs.length = 6 := by decide

private theorem ok_parts {c : Cfg} (h : c.ok = true) :
    c.edgesRanked = true ∧ c.boundsOk = true ∧ c.framesStatic = true ∧ c.noAllocator = true ∧ c.noWritable = true := by
  unfold Cfg.ok at h
  simp only [Bool.and_eq_true] at h
  exact ⟨h.1.1.1.1.1.1, h.1.1.1.1.1.2, h.1.1.1.1.2, h.1.1.1.2, h.1.1.2⟩

/-- no recursion, direct or mutual (callbacks resolved to the functions whose address is taken) -/
theorem c17_no_recursion : ∀ c ∈ Gen.staticCfgs, ∀ chain : List Nat, c.isChain chain → chain.Nodup :=
  fun c hc chain h => chain_nodup c (ok_parts (c17_static_facts c hc)).1 chain h

/-- call depth is a compile-time constant: bounded by the rank of the entry function -/
theorem c17_call_depth : ∀ c ∈ Gen.staticCfgs, ∀ (a : Nat) (chain : List Nat), c.isChain (a :: chain) → chain.length ≤ c.rk a :=
  fun c hc a chain h => chain_length c (ok_parts (c17_static_facts c hc)).1 chain a h

/-- stack use of every execution is bounded by a per-configuration numeral, whatever the input -/
theorem c17_stack_bound : ∀ c ∈ Gen.staticCfgs, ∀ (a : Nat) (chain : List Nat), c.isChain (a :: chain) →
    c.stackOf (a :: chain) ≤ c.maxBound :=
  fun c hc a chain h =>
    Nat.le_trans (chain_stack c (ok_parts (c17_static_facts c hc)).2.1 chain a h) (bd_le_maxBound c a)

theorem c17_no_allocator_no_globals : ∀ c ∈ Gen.staticCfgs, c.noAllocator = true ∧ c.noWritable = true ∧ c.framesStatic = true :=
  fun c hc => let h := ok_parts (c17_static_facts c hc); ⟨h.2.2.2.1, h.2.2.2.2, h.2.2.1⟩

/-- non-vacuity: the configurations are non-trivial graphs (the parser's token loop calls helpers) -/
example : ∀ c ∈ Gen.staticCfgs, 20 ≤ c.nDefined ∧ 10 ≤ c.edges.length := by decide

end Binson
