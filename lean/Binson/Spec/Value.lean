/-
  Spec layer, part 1: the Binson value tree, its canonical encoding and well-formedness.
  Written from BINSON-SPEC-1 / binson_defines.h, not from the writer or the parser.
-/
namespace Binson

abbrev Bytes := List UInt8

mutual
inductive Value where
  | bool (b : Bool)
  | int (i : Int)
  | dbl (bits : UInt64)
  | str (s : Bytes)
  | bytes (s : Bytes)
  | arr (xs : Elems)
  | obj (fs : Fields)
inductive Elems where
  | nil
  | cons (v : Value) (rest : Elems)
inductive Fields where
  | nil
  | cons (name : Bytes) (v : Value) (rest : Fields)
end

deriving instance Repr for Value, Elems, Fields
deriving instance Inhabited for Value, Elems, Fields

/-- `w` little-endian bytes of `n` (the low `8w` bits). -/
def leBytes : Nat → Nat → Bytes
  | 0, _ => []
  | w+1, n => UInt8.ofNat (n % 256) :: leBytes w (n / 256)

/-- value of a little-endian byte list -/
def leNatL : Bytes → Nat
  | [] => 0
  | b :: r => b.toNat + 256 * leNatL r

/-- `i` is representable in `w` bytes two's complement. -/
def FitsWidth (i : Int) (w : Nat) : Prop := -(2 ^ (8 * w - 1) : Int) ≤ i ∧ i < (2 ^ (8 * w - 1) : Int)

/-- exponent k of the encoded width 2^k, as an if-chain (proved minimal in `Lemmas/L0`). -/
def intWidthExp (i : Int) : Nat :=
  if -128 ≤ i ∧ i ≤ 127 then 0 else if -32768 ≤ i ∧ i ≤ 32767 then 1
  else if -2147483648 ≤ i ∧ i ≤ 2147483647 then 2 else 3

def intWidth (i : Int) : Nat := 2 ^ intWidthExp i

/-- payload of an integer: `i mod 2^(8w)` little-endian in the minimal width `w`. -/
def encIntBody (i : Int) : Bytes :=
  let w := intWidth i
  leBytes w (i % ((256 : Int) ^ w)).toNat

/-- tag byte `base + k` followed by the payload -/
def encInt (base : UInt8) (i : Int) : Bytes :=
  (base + UInt8.ofNat (intWidthExp i)) :: encIntBody i

def encStr (base : UInt8) (s : Bytes) : Bytes := encInt base (s.length : Int) ++ s

mutual
def encode : Value → Bytes
  | .bool b => [if b then 0x44 else 0x45]
  | .int i => encInt 0x10 i
  | .dbl bits => 0x46 :: leBytes 8 bits.toNat
  | .str s => encStr 0x14 s
  | .bytes s => encStr 0x18 s
  | .arr xs => 0x42 :: (encElems xs ++ [0x43])
  | .obj fs => 0x40 :: (encFields fs ++ [0x41])
def encElems : Elems → Bytes
  | .nil => []
  | .cons v r => encode v ++ encElems r
def encFields : Fields → Bytes
  | .nil => []
  | .cons n v r => encStr 0x14 n ++ (encode v ++ encFields r)
end

/-- lexicographic order on unsigned bytes, a proper prefix first (what `memcmp`+length gives). -/
def bytesLt : Bytes → Bytes → Bool
  | [], [] => false
  | [], _ :: _ => true
  | _ :: _, [] => false
  | x :: xs, y :: ys => if x < y then true else if y < x then false else bytesLt xs ys

def INT32_MAX : Nat := 2147483647
def int64Min : Int := -9223372036854775808
def int64Max : Int := 9223372036854775807

def nameAfter (prev : Option Bytes) (n : Bytes) : Bool :=
  match prev with
  | none => true
  | some p => bytesLt p n

mutual
/-- integers in int64, lengths within INT32_MAX, names strictly ascending -/
def wfValue : Value → Bool
  | .bool _ => true
  | .int i => decide (int64Min ≤ i ∧ i ≤ int64Max)
  | .dbl _ => true
  | .str s => decide (s.length ≤ INT32_MAX)
  | .bytes s => decide (s.length ≤ INT32_MAX)
  | .arr xs => wfElems xs
  | .obj fs => wfFields none fs
def wfElems : Elems → Bool
  | .nil => true
  | .cons v r => wfValue v && wfElems r
def wfFields : Option Bytes → Fields → Bool
  | _, .nil => true
  | prev, .cons n v r => nameAfter prev n && decide (n.length ≤ INT32_MAX) && wfValue v && wfFields (some n) r
end

mutual
/-- `fits d a v`: `v` can be parsed with `d` unused state entries and `a` more array
    nestings allowed at the current level (each object level has its own 255 budget). -/
def fits : Nat → Nat → Value → Bool
  | d, _, .obj fs => decide (1 ≤ d) && fitsF (d - 1) fs
  | d, a, .arr xs => decide (1 ≤ a) && fitsE d (a - 1) xs
  | _, _, _ => true
def fitsE : Nat → Nat → Elems → Bool
  | _, _, .nil => true
  | d, a, .cons v r => fits d a v && fitsE d a r
def fitsF : Nat → Fields → Bool
  | _, .nil => true
  | d, .cons _ v r => fits d 255 v && fitsF d r
end

inductive Root | object | array
  deriving DecidableEq, Repr, Inhabited

def rootKindOk : Root → Value → Bool
  | .object, .obj _ => true
  | .array, .arr _ => true
  | _, _ => false

/-- a document of kind `root` acceptable with `maxDepth` state entries.
    An array root occupies one state entry itself (DESIGN.md section 4, C02). -/
def wfDoc (root : Root) (maxDepth : Nat) (v : Value) : Bool :=
  wfValue v && rootKindOk root v &&
    (match root with
     | .object => fits maxDepth 255 v
     | .array => fits (maxDepth - 1) 255 v)

mutual
/-- number of tokens (= loop iterations of the parser) a value occupies -/
def tokens : Value → Nat
  | .arr xs => 2 + tokensE xs
  | .obj fs => 2 + tokensF fs
  | _ => 1
def tokensE : Elems → Nat
  | .nil => 0
  | .cons v r => tokens v + tokensE r
def tokensF : Fields → Nat
  | .nil => 0
  | .cons _ v r => 1 + tokens v + tokensF r
end

end Binson
