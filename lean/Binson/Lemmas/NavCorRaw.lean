/-
  Layer 4, corollaries, part 4: C11 — `binson_parser_get_raw` and `binson_parser_to_writer`.
  On a container that `next`/lookup has just returned, `get_raw` reports exactly the bytes of that
  container (BEGIN to matching END), which alone are a valid document of that kind at the same
  `max_depth`; the cursor continues behind the container; `parser_to_writer` appends exactly those
  bytes. On anything else both return false and change nothing.
-/
import Binson.Lemmas.NavCorNames
import Binson.Lemmas.WriterLemmas
import Binson.Model.Transcribe
namespace Binson

/-! ### `fits` is monotone in both budgets -/

mutual
theorem navc_fits_mono (v : Value) (d d' a a' : Nat) (hd : d ≤ d') (ha : a ≤ a') (h : fits d a v = true) : fits d' a' v = true := by
  cases v with
  | obj fs =>
    have hh : 1 ≤ d ∧ fitsF (d - 1) fs = true := by simpa [fits] using h
    have := navc_fitsF_mono fs (d - 1) (d' - 1) (by omega) hh.2
    simp only [fits, Bool.and_eq_true, decide_eq_true_eq]
    exact ⟨by omega, this⟩
  | arr xs =>
    have hh : 1 ≤ a ∧ fitsE d (a - 1) xs = true := by simpa [fits] using h
    have := navc_fitsE_mono xs d d' (a - 1) (a' - 1) hd (by omega) hh.2
    simp only [fits, Bool.and_eq_true, decide_eq_true_eq]
    exact ⟨by omega, this⟩
  | bool _ => simp [fits]
  | int _ => simp [fits]
  | dbl _ => simp [fits]
  | str _ => simp [fits]
  | bytes _ => simp [fits]
theorem navc_fitsE_mono (xs : Elems) (d d' a a' : Nat) (hd : d ≤ d') (ha : a ≤ a') (h : fitsE d a xs = true) : fitsE d' a' xs = true := by
  cases xs with
  | nil => simp [fitsE]
  | cons v r =>
    have hh : fits d a v = true ∧ fitsE d a r = true := by simpa [fitsE] using h
    simp only [fitsE, Bool.and_eq_true]
    exact ⟨navc_fits_mono v d d' a a' hd ha hh.1, navc_fitsE_mono r d d' a a' hd ha hh.2⟩
theorem navc_fitsF_mono (fs : Fields) (d d' : Nat) (hd : d ≤ d') (h : fitsF d fs = true) : fitsF d' fs = true := by
  cases fs with
  | nil => simp [fitsF]
  | cons n v r =>
    have hh : fits d 255 v = true ∧ fitsF d r = true := by simpa [fitsF] using h
    simp only [fitsF, Bool.and_eq_true]
    exact ⟨navc_fits_mono v d d' 255 255 hd (Nat.le_refl _) hh.1, navc_fitsF_mono r d d' hd hh.2⟩
end

/-! ### the value a node annotates -/

mutual
/-- the value a node stands for (inverse of `annotate`) -/
def Node.value : Node → Value
  | .mk it ch =>
    match it.ty with
    | .object => .obj (Node.valueF ch)
    | .array => .arr (Node.valueE ch)
    | .boolean => .bool (match it.val with | .bool b => b | _ => false)
    | .integer => .int (match it.val with | .int i => i | _ => 0)
    | .double => .dbl (match it.val with | .dbl d => UInt64.ofNat d | _ => 0)
    | .string => .str it.payload
    | _ => .bytes it.payload
def Node.valueE : List Node → Elems
  | [] => .nil
  | n :: r => .cons n.value (Node.valueE r)
def Node.valueF : List Node → Fields
  | [] => .nil
  | n :: r => .cons (nameOf n) n.value (Node.valueF r)
end

mutual
theorem navc_value_annotate (nm : Option (Bytes × Span)) (off : Nat) (w : Value) : (annotate nm off w).value = w := by
  cases w with
  | bool b => simp [annotate, Node.value]
  | int i => simp [annotate, Node.value]
  | dbl d => simp [annotate, Node.value]
  | str s => simp [annotate, Node.value]
  | bytes s => simp [annotate, Node.value]
  | arr xs => simp [annotate, Node.value, navc_valueE_annotate (off + 1) xs]
  | obj fs => simp [annotate, Node.value, navc_valueF_annotate (off + 1) fs]
theorem navc_valueE_annotate (off : Nat) (xs : Elems) : Node.valueE (annotateE off xs) = xs := by
  cases xs with
  | nil => simp [annotateE, Node.valueE]
  | cons v r => simp [annotateE, Node.valueE, navc_value_annotate none off v, navc_valueE_annotate _ r]
theorem navc_valueF_annotate (off : Nat) (fs : Fields) : Node.valueF (annotateF off fs) = fs := by
  cases fs with
  | nil => simp [annotateF, Node.valueF]
  | cons n v r => simp [annotateF, Node.valueF, navc_value_annotate, navc_valueF_annotate _ r, nameOf_annotate]
end
/-! ### the reference cursor at a container -/

theorem Cursor.allowed_raw {c : Cursor} (hfr : c.frames ≠ []) {n : Node} (hcur : c.cur = some n) : c.allowed .raw = true := by
  unfold Cursor.allowed
  cases hf : c.frames with
  | nil => exact absurd hf hfr
  | cons f fs => simp [hcur]

/-- `get_raw` of the reference cursor on a container: its span; the container is no longer
    current, everything else (in particular what follows it) stays -/
theorem Cursor.step_raw_cont {c : Cursor} {n : Node} (hcur : c.cur = some n) (hty : n.item.ty = .object ∨ n.item.ty = .array) :
    (c.step .raw).2 = ⟨true, none, some ⟨n.item.start, n.item.len⟩⟩ ∧ (c.step .raw).1.cur = none ∧
    (c.step .raw).1.frames = c.frames ∧ (c.step .raw).1.done = c.done ∧ (c.step .raw).1.arrayRoot = c.arrayRoot := by
  have : (n.item.ty == .object || n.item.ty == .array) = true := by
    rcases hty with h | h <;> rw [h] <;> rfl
  simp [Cursor.step, hcur, this]

/-- the bytes of the document that a node's span covers -/
def docSpan (v : Value) (n : Node) : Bytes := ((encode v).drop n.item.start).take n.item.len

/-- what the invariant knows about a container that is current: the node annotates a container
    value `w` whose encoding lies in front of the machine's read position -/
theorem Agree.pending_container {p : Parser} {c : Cursor} (h : Agree p c) (hfr : c.frames ≠ []) {n : Node}
    (hcur : c.cur = some n) (hty : n.item.ty = .object ∨ n.item.ty = .array) :
    ∃ w nm T j k, n = annotate nm p.used w ∧ w.isContainer = true ∧ p.rem = encode w ++ T ∧ wfValue w = true ∧
      fits (p.maxDepth - (j + 1)) (255 - k) w = true := by
  cases h with
  | start root v hc hF hmd hwf => subst hc; exact absurd rfl hfr
  | done hf hd => exact absurd hf hfr
  | run L Ls pend h =>
    cases pend with
    | none =>
      obtain ⟨_, _, h3⟩ := h.pend
      rcases h3 with h3 | ⟨n', h3, _, h5, h6⟩
      · rw [h3] at hcur; cases hcur
      · rw [h3] at hcur; injection hcur with hcur; subst hcur
        rcases hty with e | e
        · exact absurd e h5
        · exact absurd e h6
    | some w =>
      obtain ⟨h1, h2, _, ⟨nm, h4⟩, _, h6, h7⟩ := h.pend
      rw [h4] at hcur; injection hcur with hcur
      exact ⟨w, nm, _, _, _, hcur.symm, h1, h2, h6, h7⟩

theorem navc_container_cases {w : Value} (h : w.isContainer = true) :
    (∃ fs, w = .obj fs) ∨ (∃ xs, w = .arr xs) := by
  cases w with
  | obj fs => exact Or.inl ⟨fs, rfl⟩
  | arr xs => exact Or.inr ⟨xs, rfl⟩
  | _ => cases h

/-- a container value that fits below some state entry is, alone, a document of its kind that
    fits the whole depth configuration -/
theorem navc_wfDoc_sub {w : Value} {md j k : Nat} (hc : w.isContainer = true) (hw : wfValue w = true)
    (hf : fits (md - (j + 1)) (255 - k) w = true) : wfDoc (rootOf w) md w = true := by
  rcases navc_container_cases hc with ⟨fs, rfl⟩ | ⟨xs, rfl⟩
  · have := navc_fits_mono (.obj fs) _ md _ 255 (by omega) (by omega) hf
    simp [wfDoc, rootOf, rootKindOk, hw, this]
  · have := navc_fits_mono (.arr xs) _ (md - 1) _ 255 (by omega) (by omega) hf
    simp [wfDoc, rootOf, rootKindOk, hw, this]

theorem machNav_raw (p : Parser) :
    machNav p .raw = ((getRaw p).1, (getRaw p).2.1, if (getRaw p).2.1 then some (getRaw p).2.2 else none) := rfl

section
variable {g : Parser} {root : Root} {v : Value} {p : Parser} {c : Cursor}

/-- **C11.6** `get_raw` on a container just returned by `next`/lookup.
    * it returns true and the span of the node (`start`, `len`);
    * the node annotates the container value `w = n.value` (`n = annotate nm start w`), and the bytes of
      the span in the document are exactly `encode w`: first byte the BEGIN byte, last the matching END byte;
    * `w` alone is a well-formed document of its kind at the same `max_depth`, so init + verify (from
      any allocated parser object `g'` with that `max_depth`) accept exactly those bytes;
    * nothing is wrong afterwards, the container is consumed, the cursor continues with the element
      that follows it (same frames), and the pair is reachable again. -/
theorem raw_container (h : Reachable g root v p c) (hfr : c.frames ≠ []) {n : Node} (hcur : c.cur = some n)
    (hty : n.item.ty = .object ∨ n.item.ty = .array) :
    (getRaw p).2 = (true, ⟨n.item.start, n.item.len⟩) ∧
    (∃ nm, n = annotate nm n.item.start n.value) ∧
    docSpan v n = encode n.value ∧ n.item.len = (encode n.value).length ∧
    ((n.item.ty = .object ∧ ∃ fs, n.value = .obj fs ∧ docSpan v n = 0x40 :: (encFields fs ++ [0x41])) ∨
     (n.item.ty = .array ∧ ∃ xs, n.value = .arr xs ∧ docSpan v n = 0x42 :: (encElems xs ++ [0x43]))) ∧
    wfDoc (rootOf n.value) g.maxDepth n.value = true ∧
    (∀ g', Alloc g' → g'.maxDepth = g.maxDepth →
      (init g' (docSpan v n).toArray (rootNum (rootOf n.value))).2 = true ∧
      (verify (init g' (docSpan v n).toArray (rootNum (rootOf n.value))).1).2.1 = true) ∧
    (getRaw p).1.err = .none ∧ (getRaw p).1.fault = false ∧
    (c.step .raw).1.cur = none ∧ (c.step .raw).1.frames = c.frames ∧
    Reachable g root v (getRaw p).1 (c.step .raw).1 := by
  have hA := reachable_agree h
  have ha := Cursor.allowed_raw hfr hcur
  obtain ⟨o1, o2, o3, o4, _⟩ := reachable_obs h .raw ha
  obtain ⟨s1, s2, s3, _⟩ := Cursor.step_raw_cont hcur hty
  rw [machNav_raw, s1] at o1 o2
  simp only at o1 o2
  rw [o1] at o2
  simp only [if_true] at o2
  injection o2 with o2
  obtain ⟨w, nm, T, j, k, hn, hc, hrem, hwf, hfit⟩ := hA.pending_container hfr hcur hty
  have hstart : n.item.start = p.used := by rw [hn, annotate_item_start]
  have hlen : n.item.len = (encode w).length := by rw [hn, annotate_item_len _ _ _ hc]
  have hbuf : p.buf.toList = encode v := by rw [h.buf]
  have hspan : docSpan v n = encode w := by
    unfold docSpan
    unfold Parser.rem at hrem
    rw [hstart, hlen, ← hbuf, hrem]
    simp
  have hle : (encode w).length ≤ (encode v).length := by
    have := congrArg List.length hrem
    unfold Parser.rem at this
    rw [hbuf] at this
    simp only [List.length_drop, List.length_append] at this
    omega
  have hdoc : wfDoc (rootOf w) g.maxDepth w = true := by
    rw [← h.maxDepth]; exact navc_wfDoc_sub hc hwf hfit
  have hv : n.value = w := by
    have := navc_value_annotate nm p.used w
    rw [← hn] at this; exact this
  rw [hv]
  refine ⟨Prod.ext o1 o2, ⟨nm, by rw [hstart]; exact hn⟩, hspan, hlen, ?_, hdoc, ?_, o3, o4, s2, s3, reachable_step h .raw ha⟩
  · rw [hspan]
    rcases navc_container_cases hc with ⟨fs, rfl⟩ | ⟨xs, rfl⟩
    · exact Or.inl ⟨by rw [hn]; exact annotate_ty_obj _ _ _, fs, rfl, by simp [encode]⟩
    · exact Or.inr ⟨by rw [hn]; exact annotate_ty_arr _ _ _, xs, rfl, by simp [encode]⟩
  · intro g' hal hmd
    rw [hspan]
    have := verify_wellformed g' hal (by rw [hmd]; exact h.1.md) (rootOf w) w (by rw [hmd]; exact hdoc)
      (Nat.lt_of_le_of_lt hle h.1.sz)
    exact ⟨this.1, this.2.2.1⟩

/-- **C11.7** on anything that is not a container (current type neither OBJECT nor ARRAY), or with an
    error latched, `get_raw` and `parser_to_writer` return false and change nothing — for ANY parser
    state, directly from the code -/
theorem raw_other (p : Parser) (W : Writer)
    (h : p.err ≠ .none ∨ ((p.getLvl p.cur).ctype ≠ .object ∧ (p.getLvl p.cur).ctype ≠ .array)) :
    (getRaw p).1 = p ∧ (getRaw p).2.1 = false ∧ parserToWriter p W = (p, W, false) := by
  have key : (getRaw p).1 = p ∧ (getRaw p).2.1 = false := by
    by_cases he : p.err = .none
    · rcases h with h | ⟨h1, h2⟩
      · exact absurd he h
      · rw [getRaw_scalar he h1 h2]; exact ⟨rfl, rfl⟩
    · unfold getRaw; rw [if_pos he]; exact ⟨rfl, rfl⟩
  refine ⟨key.1, key.2, ?_⟩
  unfold parserToWriter
  simp only [key.2, Bool.not_false, if_true, key.1]

/-- the writer after `len` more bytes have been stored at its write position -/
def Writer.appended (W : Writer) (data : Bytes) : Writer :=
  { W with mem := storeAt W.mem W.used data, fault := W.fault || decide (W.mem.size < W.used + data.length), used := W.used + data.length }

theorem Writer.appended_mem (W : Writer) (data : Bytes) (h : W.used + data.length ≤ W.mem.size) :
    (W.appended data).mem.toList = W.mem.toList.take W.used ++ data ++ W.mem.toList.drop (W.used + data.length) ∧
    (W.appended data).fault = W.fault := by
  refine ⟨storeAt_toList W.mem W.used data h, ?_⟩
  show (W.fault || decide (W.mem.size < W.used + data.length)) = W.fault
  have : decide (W.mem.size < W.used + data.length) = false := decide_eq_false (by omega)
  rw [this, Bool.or_false]

/-- **C11.8** `binson_parser_to_writer` on a container just returned: a healthy writer (no error
    latched, non-NULL buffer, `buffer_size` below 2^64) with room for the span gets exactly the
    bytes of the container appended at its write position, its counter advances by their number,
    and the call returns true. `binson_write_raw` has no INT32_MAX limit on the length, so none is
    needed here. (`Writer.appended_mem`: if the claimed room really exists in `mem`, the other bytes
    of `mem` stay and no out-of-bounds store happens.) -/
theorem to_writer_appends (h : Reachable g root v p c) (hfr : c.frames ≠ []) {n : Node} (hcur : c.cur = some n)
    (hty : n.item.ty = .object ∨ n.item.ty = .array)
    (W : Writer) (he : W.err = .none) (hb : W.bufNull = false) (hroom : W.used + n.item.len ≤ W.cap) (hcap : W.cap < two64) :
    parserToWriter p W = ((getRaw p).1, W.appended (docSpan v n), true) ∧
    (docSpan v n).length = n.item.len ∧
    (W.appended (docSpan v n)).used = W.used + n.item.len ∧ (W.appended (docSpan v n)).err = .none := by
  obtain ⟨r1, _, hspan, hlen, _, _, _, _, _, _, _, hR⟩ := raw_container h hfr hcur hty
  have hlen2 : (docSpan v n).length = n.item.len := by rw [hspan, hlen]
  have hbuf' : (getRaw p).1.buf = p.buf := by rw [hR.buf, h.buf]
  have hsl : (getRaw p).1.slice (getRaw p).2.2 = docSpan v n := by
    rw [r1]
    show (getRaw p).1.slice ⟨n.item.start, n.item.len⟩ = _
    rw [slice_congr hbuf']
    unfold docSpan Parser.slice
    simp only [Array.toList_extract, List.extract_eq_take_drop, Nat.add_sub_cancel_left]
    rw [h.buf]
  have hpw : parserToWriter p W = ((getRaw p).1, (W.write ((getRaw p).1.slice (getRaw p).2.2)).1,
      (W.write ((getRaw p).1.slice (getRaw p).2.2)).2) := by
    unfold parserToWriter
    have : (getRaw p).2.1 = true := by rw [r1]
    simp only [this, Bool.not_true, Bool.false_eq_true, if_false]
    rfl
  rw [hpw, hsl, write_ok W (docSpan v n) hb he (by rw [hlen2]; exact hroom) hcap]
  refine ⟨rfl, hlen2, ?_, he⟩
  show W.used + (docSpan v n).length = _
  rw [hlen2]

end

end Binson
