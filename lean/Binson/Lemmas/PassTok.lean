/-
  Layer 3, part 2: closed forms of one loop iteration below the originating level, given the
  closed form of the classification stage (Lemmas/Tokens.lean supplies those from the bytes).
-/
import Binson.Lemmas.PassDefs
namespace Binson

theorem deep_notOrig {st : LoopSt} {oa od : Nat} (h : Deep st oa od) (a : Nat)
    (ha : a = (st.p.getLvl st.p.lvlIdx).ad) : decide (oa = a ∧ od = st.p.depth) = false := by
  rcases h.deeper with h1 | ⟨h1, h2⟩
  · simp; omega
  · simp; omega

theorem objBlock_val_obj {lv : Level} {tok : Tok} (hf : lv.flags = .expValue) (hv : tok.isValue = true) :
    objBlock lv tok = some ({ lv with flags := .expField }, tok) := by
  unfold objBlock
  simp [hf, Flags.inObject, hv]

theorem objBlock_arr {lv : Level} {tok : Tok} (hf : lv.flags = .arr1 ∨ lv.flags = .arr2) :
    objBlock lv tok = some (lv, tok) := by
  unfold objBlock
  rcases hf with hf | hf <;> simp [hf, Flags.inObject]

theorem arrBlock_notOrig (lv : Level) (tok : Tok) (s : Option Scan) : arrBlock lv tok false s = (lv, s) := by
  unfold arrBlock; simp

theorem arrBlock_notArr {lv : Level} (tok : Tok) (b : Bool) (s : Option Scan) (h : lv.flags.inArray = false) :
    arrBlock lv tok b s = (lv, s) := by
  unfold arrBlock; simp [h]

/-- value-context step of the two blocks: the level a value token is stored into, and the unchanged scan word -/
theorem blocks_value {st : LoopSt} {oa od : Nat} (hD : Deep st oa od) {lv : Level} {tok : Tok} (q : Parser)
    (hq : q.depth = st.p.depth) (hlv : lv.ad = (st.p.getLvl st.p.lvlIdx).ad ∧ lv.flags = (st.p.getLvl st.p.lvlIdx).flags)
    (hctx : ValCtx (st.p.getLvl st.p.lvlIdx)) (hv : tok.isValue = true) (isArr : Bool) :
    ∃ lv', objBlock lv tok = some (lv', tok) ∧
      arrBlock lv' tok (decide (oa = lv'.ad ∧ od = q.depth)) st.scan = (lv', st.scan) ∧
      lv'.ad = lv.ad ∧ lv'.name = lv.name ∧ lv'.val = lv.val ∧ lv'.ctype = lv.ctype ∧
      (if isArr then True else lv'.flags = afterFlags (st.p.getLvl st.p.lvlIdx) false) ∧
      ((st.p.getLvl st.p.lvlIdx).flags = .expValue → lv'.flags = .expField) ∧
      ((st.p.getLvl st.p.lvlIdx).flags ≠ .expValue → lv'.flags = lv.flags) := by
  rcases hctx with ⟨hf, ha⟩ | ⟨hf, ha⟩
  · refine ⟨{ lv with flags := .expField }, objBlock_val_obj (hlv.2.trans hf) hv, ?_, rfl, rfl, rfl, rfl, ?_, fun _ => rfl, fun h => absurd hf h⟩
    · exact arrBlock_notArr _ _ _ rfl
    · cases isArr <;> simp [afterFlags, hf]
  · have hf' : lv.flags = .arr1 ∨ lv.flags = .arr2 := by rw [hlv.2]; exact hf
    refine ⟨lv, objBlock_arr hf', ?_, rfl, rfl, rfl, rfl, ?_, fun h => ?_, fun _ => rfl⟩
    · have := deep_notOrig hD lv.ad hlv.1
      rw [hq, this]; exact arrBlock_notOrig _ _ _
    · cases isArr
      · simp only [Bool.false_eq_true, if_false]
        rw [hlv.2]; unfold afterFlags
        rcases hf with h | h <;> simp [h]
      · trivial
    · rcases hf with h1 | h1 <;> rw [h1] at h <;> cases h

end Binson

namespace Binson

/-- what `caseScalar` stores into the level -/
def scalarStore (tok : Tok) (lv : Level) (span : Span) (q : Parser) : Level :=
  match tok with
  | .string => { lv with ctype := .string, val := .span span }
  | .bytes => { lv with ctype := .bytes, val := .span span }
  | .integer => { lv with ctype := .integer, val := .int (parseIntVal q span) }
  | .double => { lv with ctype := .double, val := .dbl (leNat q span.off 8) }
  | .boolean => { lv with ctype := .boolean, val := .bool (q.byte span.off = 0x44) }
  | _ => lv

def Tok.isScalar : Tok → Bool
  | .string | .bytes | .integer | .double | .boolean => true
  | _ => false

theorem finish_cont (st : LoopSt) (tok : Tok) (p : Parser) (lv : Level) (li : Nat) (scan : Option Scan) (force : Bool)
    (hli : li < p.levels.size) (he : p.err = .none) (hc : force = true ∨ Cont scan) :
    finish st tok p lv li scan force =
      ({ st with p := p.setLvl li lv, scan := scan, ev := (tok, (p.setLvl li lv).getLvl (p.setLvl li lv).cur) :: st.ev }, .cont) := by
  unfold finish
  have e : (p.setLvl li lv).err = .none := by rw [(setLvl_fields lv hli).2.2.2.2.2.2.1]; exact he
  simp only [e, ne_eq, not_true_eq_false, if_false]
  have : (force || has scan [.verify, .leaveObj, .value, .leaveArr]) = true := by
    rcases hc with rfl | h
    · rfl
    · rw [h.has_objEnd]; simp
  rw [this]; rfl

theorem byte_buf {p q : Parser} (h : q.buf = p.buf) (i : Nat) : q.byte i = p.byte i := by
  unfold Parser.byte; rw [h]

theorem leNat_buf {p q : Parser} (h : q.buf = p.buf) (off w : Nat) : leNat q off w = leNat p off w := by
  induction w generalizing off with
  | zero => rfl
  | succ w ih => simp only [leNat, byte_buf h, ih]

theorem parseIntVal_buf {p q : Parser} (h : q.buf = p.buf) (s : Span) : parseIntVal q s = parseIntVal p s := by
  unfold parseIntVal
  simp only [leNat_buf h, byte_buf h]

theorem Level.eq_of_fields {a b : Level} (h1 : a.ctype = b.ctype) (h2 : a.val = b.val) (h3 : a.name = b.name)
    (h4 : a.flags = b.flags) (h5 : a.ad = b.ad) : a = b := by
  cases a; cases b; simp_all

/-- a scalar value token below the originating level -/
theorem iter_scalar {st : LoopSt} {sn : Option (List UInt8)} {oa od : Nat} (hD : Deep st oa od)
    (tok : Tok) (span : Span) (bc : Nat) (q : Parser) (hq : q = { st.p with used := st.p.used + bc })
    (hcl : classify st.p st.bc = ⟨tok, span, bc, q⟩)
    (hfit : st.p.used + bc ≤ st.p.size) (hsp : span.off + span.len ≤ st.p.size)
    (hctx : ValCtx (st.p.getLvl st.p.lvlIdx)) (hsc : tok.isScalar = true)
    (hint : tok = .integer → intBoundsOk (parseIntVal st.p span) span.len = true) :
    iter st sn oa od =
      ({ p := q.setLvl st.p.lvlIdx (scalarStore tok { st.p.getLvl st.p.lvlIdx with flags := afterFlags (st.p.getLvl st.p.lvlIdx) false } span st.p),
         scan := st.scan, bc := bc,
         ev := (tok, scalarStore tok { st.p.getLvl st.p.lvlIdx with flags := afterFlags (st.p.getLvl st.p.lvlIdx) false } span st.p) :: st.ev }, .cont) := by
  have hsh := hD.shape
  have hval : tok.isValue = true := by cases tok <;> simp_all [Tok.isScalar, Tok.isValue]
  have hne : tok ≠ .error := by intro h; rw [h] at hsc; cases hsc
  have hqs : Shape q := by rw [hq]; exact hsh.withUsed _ hfit
  have hqd : q.depth = st.p.depth := by rw [hq]
  have hqi : q.lvlIdx = st.p.lvlIdx := by rw [hq]; rfl
  have hqg : q.getLvl q.lvlIdx = st.p.getLvl st.p.lvlIdx := by rw [hq]; rfl
  have hqe : q.err = .none := by rw [hq]; exact hD.err
  have hqb : q.buf = st.p.buf := by rw [hq]
  have hqc : q.cur = st.p.lvlIdx := by rw [← hqi]; exact hqs.hcur
  have hli : st.p.lvlIdx < q.levels.size := by rw [← hqi]; exact hqs.lvlIdx_lt
  have hpi : parseIntVal q span = parseIntVal st.p span := parseIntVal_buf hqb span
  have hle : leNat q span.off 8 = leNat st.p span.off 8 := leNat_buf hqb _ _
  have hby : q.byte span.off = st.p.byte span.off := byte_buf hqb _
  obtain ⟨lv', hob, hab, h1, h2, h3, h4, h5, _, _⟩ :=
    blocks_value hD (lv := st.p.getLvl st.p.lvlIdx) (tok := tok) q hqd ⟨rfl, rfl⟩ hctx hval false
  simp only [Bool.false_eq_true, if_false] at h5
  have hlv' : lv' = { st.p.getLvl st.p.lvlIdx with flags := afterFlags (st.p.getLvl st.p.lvlIdx) false } :=
    Level.eq_of_fields h4 h3 h2 h5 h1
  unfold iter
  simp only [hcl, hne, if_false]
  rw [hqg, hob]
  simp only [hab, hqi]
  have hbuf : span.off + span.len ≤ q.buf.size := by rw [hqs.hbs, hq]; exact hsp
  have hev : ∀ l : Level, (q.setLvl st.p.lvlIdx l).getLvl (q.setLvl st.p.lvlIdx l).cur = l := by
    intro l
    rw [(setLvl_fields (p := q) l hli).2.2.2.2.2.2.2.1, hqc, getLvl_setLvl l hli]
    simp
  have hfin : ∀ l : Level, finish { st with bc := bc } tok q l st.p.lvlIdx st.scan false =
      ({ p := q.setLvl st.p.lvlIdx l, scan := st.scan, bc := bc, ev := (tok, l) :: st.ev }, .cont) := by
    intro l
    rw [finish_cont _ _ _ _ _ _ _ hli hqe (Or.inr hD.cont), hev l]
  subst hlv'
  cases tok with
  | string => exact hfin _
  | bytes => exact hfin _
  | boolean =>
    show caseScalar _ _ _ _ _ _ _ = _
    unfold caseScalar
    simp only [hby]
    exact hfin _
  | double =>
    show caseScalar _ _ _ _ _ _ _ = _
    unfold caseScalar
    simp only [touchBuf_of_le hbuf, hle]
    exact hfin _
  | integer =>
    show caseScalar _ _ _ _ _ _ _ = _
    unfold caseScalar
    simp only [touchBuf_of_le hbuf, hpi]
    have hi := hint rfl
    simp only [hi, Bool.not_true, Bool.false_eq_true, if_false]
    exact hfin _
  | objBegin => cases hsc
  | objEnd => cases hsc
  | arrBegin => cases hsc
  | arrEnd => cases hsc
  | error => cases hsc
  | fieldName => cases hsc

end Binson

namespace Binson

theorem objBlock_fieldName {lv : Level} (hf : lv.flags = .expField) :
    objBlock lv .string = some (lv, .fieldName) := by
  unfold objBlock
  simp [hf, Flags.inObject, Tok.isValue]

theorem objBlock_end {lv : Level} {tok : Tok} (hv : tok.isValue = false) (hn : tok ≠ .string) :
    objBlock lv tok = some (lv, tok) := by
  unfold objBlock
  by_cases h : lv.flags.inObject = true
  · simp [h, hv, hn]
  · simp [h]

/-- a field name below the originating level: stored as the level's name, the level now expects its value -/
theorem iter_fieldName {st : LoopSt} {sn : Option (List UInt8)} {oa od : Nat} (hD : Deep st oa od)
    (span : Span) (bc : Nat) (q : Parser) (hq : q = { st.p with used := st.p.used + bc })
    (hcl : classify st.p st.bc = ⟨.string, span, bc, q⟩)
    (hfit : st.p.used + bc ≤ st.p.size) (hsp : span.off + span.len ≤ st.p.size)
    (hf : (st.p.getLvl st.p.lvlIdx).flags = .expField)
    (hord : ∀ pn, (st.p.getLvl st.p.lvlIdx).name = some pn → cmpBytes (st.p.slice pn) (st.p.slice span) < 0) :
    iter st sn oa od =
      ({ p := q.setLvl st.p.lvlIdx { st.p.getLvl st.p.lvlIdx with name := some span, flags := .expValue },
         scan := st.scan, bc := bc,
         ev := (.fieldName, { st.p.getLvl st.p.lvlIdx with name := some span, flags := .expValue }) :: st.ev }, .cont) := by
  have hsh := hD.shape
  have hqs : Shape q := by rw [hq]; exact hsh.withUsed _ hfit
  have hqd : q.depth = st.p.depth := by rw [hq]
  have hqi : q.lvlIdx = st.p.lvlIdx := by rw [hq]; rfl
  have hqg : q.getLvl q.lvlIdx = st.p.getLvl st.p.lvlIdx := by rw [hq]; rfl
  have hqe : q.err = .none := by rw [hq]; exact hD.err
  have hqb : q.buf = st.p.buf := by rw [hq]
  have hqc : q.cur = st.p.lvlIdx := by rw [← hqi]; exact hqs.hcur
  have hli : st.p.lvlIdx < q.levels.size := by rw [← hqi]; exact hqs.lvlIdx_lt
  have hsl : ∀ s, q.slice s = st.p.slice s := by intro s; unfold Parser.slice; rw [hqb]
  unfold iter
  simp only [hcl, show Tok.string ≠ Tok.error by decide, if_false]
  rw [hqg, objBlock_fieldName hf]
  have hno := deep_notOrig hD (st.p.getLvl st.p.lvlIdx).ad rfl
  simp only [hqd, hno, arrBlock_notOrig, hqi]
  show caseFieldName _ _ _ _ _ _ _ _ _ _ = _
  unfold caseFieldName
  have hbuf : span.off + span.len ≤ q.buf.size := by rw [hqs.hbs, hq]; exact hsp
  have hspl := hsh.hsp hD.err st.p.lvlIdx
  have htn : touchName (q.touchBuf span.off span.len) (st.p.getLvl st.p.lvlIdx).name = q := by
    rw [touchBuf_of_le hbuf]
    unfold touchName
    cases hn : (st.p.getLvl st.p.lvlIdx).name with
    | none => rfl
    | some pn => exact touchBuf_of_le (by rw [hqs.hbs, hq]; exact hspl.1 pn hn)
  simp only [htn]
  have hoe : nameOrdErr q (st.p.getLvl st.p.lvlIdx) span = false := by
    unfold nameOrdErr
    cases hn : (st.p.getLvl st.p.lvlIdx).name with
    | none => rfl
    | some pn =>
      simp only [hsl]
      have := hord pn hn
      simp; omega
  simp only [hoe, Bool.false_eq_true, if_false]
  have hno' : ¬ (oa = (st.p.getLvl st.p.lvlIdx).ad ∧ od = q.depth) := by
    rw [hqd]; simpa using hno
  rw [if_neg hno']
  rw [finish_cont _ _ _ _ _ _ _ hli hqe (Or.inl rfl)]
  have hev : (q.setLvl st.p.lvlIdx { st.p.getLvl st.p.lvlIdx with name := some span, flags := .expValue }).getLvl
      (q.setLvl st.p.lvlIdx { st.p.getLvl st.p.lvlIdx with name := some span, flags := .expValue }).cur =
      { st.p.getLvl st.p.lvlIdx with name := some span, flags := .expValue } := by
    rw [(setLvl_fields (p := q) _ hli).2.2.2.2.2.2.2.1, hqc, getLvl_setLvl _ hli]
    simp
  rw [hev]

end Binson

namespace Binson

theorem getLvl_withUsed (p : Parser) (u : Nat) (i : Nat) : ({ p with used := u } : Parser).getLvl i = p.getLvl i := rfl

/-- `[` in value position below the originating level: consumed, the level is now inside one more array -/
theorem iter_arrBegin {st : LoopSt} {sn : Option (List UInt8)} {oa od : Nat} (hD : Deep st oa od)
    (hcl : classify st.p st.bc = ⟨.arrBegin, ⟨st.p.used, 1⟩, st.bc,
      st.p.setLvl st.p.lvlIdx { st.p.getLvl st.p.lvlIdx with ctype := .array }⟩)
    (hlt : st.p.used < st.p.size) (hctx : ValCtx (st.p.getLvl st.p.lvlIdx)) (had : (st.p.getLvl st.p.lvlIdx).ad < 255) :
    ∃ st', iter st sn oa od = (st', .cont) ∧ Shape st'.p ∧ st'.p.err = .none ∧ st'.scan = st.scan ∧
      st'.p.used = st.p.used + 1 ∧ st'.p.depth = st.p.depth ∧ st.p.Frame st'.p ∧
      (∀ i, st'.p.getLvl i = if i = st.p.lvlIdx then
          { st.p.getLvl st.p.lvlIdx with ctype := .array, flags := .arr1, ad := (st.p.getLvl st.p.lvlIdx).ad + 1 }
        else st.p.getLvl i) ∧
      st'.ev = (.arrBegin, { st.p.getLvl st.p.lvlIdx with ctype := .array, flags := .arr1, ad := (st.p.getLvl st.p.lvlIdx).ad + 1 }) :: st.ev := by
  have hsh := hD.shape
  have hli := hsh.lvlIdx_lt
  have hspl := hsh.hsp hD.err st.p.lvlIdx
  obtain ⟨s1, s2, _, s4, s5, s6, s7, s8, s9, s10, s11⟩ :=
    setLvl_ok (p0 := st.p) hsh (Parser.Frame.refl _) { st.p.getLvl st.p.lvlIdx with ctype := .array } hli (SpansOk_of_fields rfl rfl hspl)
  have hgq : ∀ i, (st.p.setLvl st.p.lvlIdx { st.p.getLvl st.p.lvlIdx with ctype := .array }).getLvl i =
      if i = st.p.lvlIdx then { st.p.getLvl st.p.lvlIdx with ctype := .array } else st.p.getLvl i :=
    fun i => getLvl_setLvl _ hli i
  generalize hqdef : st.p.setLvl st.p.lvlIdx { st.p.getLvl st.p.lvlIdx with ctype := .array } = q at hcl s1 s2 s4 s5 s6 s7 s8 s9 s10 s11 hgq
  have hqi : q.lvlIdx = st.p.lvlIdx := by unfold Parser.lvlIdx; rw [s5]
  have hqg : q.getLvl q.lvlIdx = { st.p.getLvl st.p.lvlIdx with ctype := .array } := by rw [hqi, hgq]; simp
  have hli' : st.p.lvlIdx < q.levels.size := by rw [s9]; exact hli
  obtain ⟨lv', hob, hab, h1, h2, h3, h4, _, h6, h7⟩ :=
    blocks_value hD (lv := { st.p.getLvl st.p.lvlIdx with ctype := .array }) (tok := .arrBegin) q s5 ⟨rfl, rfl⟩ hctx rfl true
  unfold iter
  simp only [hcl, show Tok.arrBegin ≠ Tok.error by decide, if_false]
  rw [hqg, hob]
  simp only [hab, hqi]
  show ∃ st', caseArrBegin _ _ _ _ _ = (st', .cont) ∧ _
  unfold caseArrBegin
  have hadl : ¬ lv'.ad ≥ 255 := by rw [h1]; simp only; omega
  rw [if_neg hadl, if_pos hD.cont.has_arrBegin, hD.cont.clear_enterArr]
  dsimp only
  have hq1 : Shape { q with used := q.used + 1 } := s1.withUsed (q.used + 1) (by rw [s4, s8]; omega)
  have hqe : ({ q with used := q.used + 1 } : Parser).err = .none := by show q.err = .none; rw [s6]; exact hD.err
  rw [finish_cont _ _ ({ q with used := q.used + 1 }) _ _ _ _ hli' hqe (Or.inr hD.cont)]
  have hL : ({ lv' with flags := .arr1, ad := lv'.ad + 1 } : Level) =
      { st.p.getLvl st.p.lvlIdx with ctype := .array, flags := .arr1, ad := (st.p.getLvl st.p.lvlIdx).ad + 1 } :=
    Level.eq_of_fields h4 h3 h2 rfl (by simp only [h1])
  rw [hL]
  have hspL : ({ st.p.getLvl st.p.lvlIdx with ctype := .array, flags := .arr1, ad := (st.p.getLvl st.p.lvlIdx).ad + 1 } : Level).SpansOk
      ({ q with used := q.used + 1 } : Parser).size := by
    show Level.SpansOk q.size _
    rw [s8]; exact SpansOk_of_fields rfl rfl hspl
  obtain ⟨t1, t2, _, t4, t5, t6, t7, t8, t9, t10, t11⟩ :=
    setLvl_ok (p0 := st.p) hq1 (s2.trans ⟨rfl, rfl, rfl, rfl, rfl⟩) _ hli' hspL
  have hgf : ∀ i, (({ q with used := q.used + 1 } : Parser).setLvl st.p.lvlIdx
      { st.p.getLvl st.p.lvlIdx with ctype := .array, flags := .arr1, ad := (st.p.getLvl st.p.lvlIdx).ad + 1 }).getLvl i =
      if i = st.p.lvlIdx then { st.p.getLvl st.p.lvlIdx with ctype := .array, flags := .arr1, ad := (st.p.getLvl st.p.lvlIdx).ad + 1 }
      else st.p.getLvl i := by
    intro i
    have := getLvl_setLvl (p := ({ q with used := q.used + 1 } : Parser))
      { st.p.getLvl st.p.lvlIdx with ctype := .array, flags := .arr1, ad := (st.p.getLvl st.p.lvlIdx).ad + 1 } hli' i
    rw [this]
    split
    · rfl
    · rename_i hne
      rw [getLvl_withUsed, hgq]; simp [hne]
  have hc : (({ q with used := q.used + 1 } : Parser).setLvl st.p.lvlIdx
      { st.p.getLvl st.p.lvlIdx with ctype := .array, flags := .arr1, ad := (st.p.getLvl st.p.lvlIdx).ad + 1 }).cur = st.p.lvlIdx := by
    rw [t7]; show q.cur = _; rw [s7, hsh.hcur]
  refine ⟨_, rfl, t1, ?_, rfl, ?_, ?_, t2, hgf, ?_⟩
  · rw [t6]; exact hqe
  · rw [t4]; show q.used + 1 = _; rw [s4]
  · rw [t5]; exact s5
  · simp only
    rw [hc, hgf]
    simp

end Binson

namespace Binson

theorem getLvl_setLvl_used (q : Parser) (u : Nat) (i : Nat) (l : Level) (h : i < q.levels.size) (j : Nat) :
    (({ q with used := u } : Parser).setLvl i l).getLvl j = if j = i then l else q.getLvl j :=
  getLvl_setLvl (p := ({ q with used := u } : Parser)) l h j

/-- the level after one of its arrays has been closed -/
def arrEndLevel (l : Level) : Level :=
  { l with ad := l.ad - 1, flags := if l.ad - 1 = 0 then .expField else .arr1 }

/-- `]` below the originating level (not the root array's): consumed, one array level less -/
theorem iter_arrEnd {st : LoopSt} {sn : Option (List UInt8)} {oa od : Nat} (hD : Deep st oa od)
    (hcl : classify st.p st.bc = ⟨.arrEnd, ⟨st.p.used, 1⟩, st.bc, st.p⟩)
    (hlt : st.p.used < st.p.size)
    (hf : (st.p.getLvl st.p.lvlIdx).flags = .arr1 ∨ (st.p.getLvl st.p.lvlIdx).flags = .arr2)
    (had : 1 ≤ (st.p.getLvl st.p.lvlIdx).ad)
    (hnr : ¬ ((st.p.getLvl st.p.lvlIdx).ad = 1 ∧ st.p.ptype = 2 ∧ st.p.depth = 1)) :
    ∃ st', iter st sn oa od = (st', .cont) ∧ Shape st'.p ∧ st'.p.err = .none ∧ st'.scan = st.scan ∧
      st'.p.used = st.p.used + 1 ∧ st'.p.depth = st.p.depth ∧ st.p.Frame st'.p ∧
      (∀ i, st'.p.getLvl i = if i = st.p.lvlIdx then
          arrEndLevel (st.p.getLvl st.p.lvlIdx)
        else st.p.getLvl i) ∧
      st'.ev = (.arrEnd, arrEndLevel (st.p.getLvl st.p.lvlIdx)) :: st.ev := by
  have hsh := hD.shape
  have hli := hsh.lvlIdx_lt
  have hspl := hsh.hsp hD.err st.p.lvlIdx
  have hno := deep_notOrig hD (st.p.getLvl st.p.lvlIdx).ad rfl
  have hina : (st.p.getLvl st.p.lvlIdx).flags.inArray = true := by rcases hf with h | h <;> rw [h] <;> rfl
  unfold iter
  simp only [hcl, show Tok.arrEnd ≠ Tok.error by decide, if_false]
  rw [objBlock_end rfl (by decide)]
  simp only [hno, arrBlock_notOrig]
  show ∃ st', caseArrEnd _ _ _ _ _ _ _ = (st', .cont) ∧ _
  unfold caseArrEnd
  simp only [hina, Bool.not_true, Bool.false_eq_true, if_false]
  rw [if_pos hD.cont.has_arrEnd]
  have hno2 : ¬ (od = st.p.depth ∧ oa = (st.p.getLvl st.p.lvlIdx).ad) := by
    intro h; have : (oa = (st.p.getLvl st.p.lvlIdx).ad ∧ od = st.p.depth) := ⟨h.2, h.1⟩
    simp [this] at hno
  try dsimp only
  rw [if_neg hno2, if_neg (by omega : ¬ (st.p.getLvl st.p.lvlIdx).ad = 0)]
  have hq1 : Shape { st.p with used := st.p.used + 1 } := hsh.withUsed (st.p.used + 1) (by omega)
  have hqe : ({ st.p with used := st.p.used + 1 } : Parser).err = .none := hD.err
  have fin : ∀ (L : Level) (hL : L.name = (st.p.getLvl st.p.lvlIdx).name ∧ L.val = (st.p.getLvl st.p.lvlIdx).val),
      ∃ st', finish { st with bc := st.bc } .arrEnd { st.p with used := st.p.used + 1 } L st.p.lvlIdx st.scan false = (st', .cont) ∧
        Shape st'.p ∧ st'.p.err = .none ∧ st'.scan = st.scan ∧ st'.p.used = st.p.used + 1 ∧ st'.p.depth = st.p.depth ∧
        st.p.Frame st'.p ∧ (∀ i, st'.p.getLvl i = if i = st.p.lvlIdx then L else st.p.getLvl i) ∧ st'.ev = (.arrEnd, L) :: st.ev := by
    intro L hL
    rw [finish_cont _ _ ({ st.p with used := st.p.used + 1 }) _ _ _ _ hli hqe (Or.inr hD.cont)]
    obtain ⟨t1, t2, _, t4, t5, t6, t7, t8, t9, t10, t11⟩ :=
      setLvl_ok (p0 := st.p) hq1 ⟨rfl, rfl, rfl, rfl, rfl⟩ L hli (SpansOk_of_fields hL.1 hL.2 hspl)
    have hg := getLvl_setLvl_used st.p (st.p.used + 1) st.p.lvlIdx L hli
    have hc : (({ st.p with used := st.p.used + 1 } : Parser).setLvl st.p.lvlIdx L).cur = st.p.lvlIdx := by
      rw [t7]; exact hsh.hcur
    refine ⟨_, rfl, t1, by rw [t6]; exact hqe, rfl, t4, t5, t2, hg, ?_⟩
    simp only
    rw [hc, hg]; simp
  unfold arrEndLevel
  by_cases h0 : (st.p.getLvl st.p.lvlIdx).ad - 1 = 0
  · simp only [h0, if_true]
    have hroot : ¬ (st.p.ptype = 2 ∧ st.p.depth = 1) := by
      intro h; exact hnr ⟨by omega, h.1, h.2⟩
    rw [if_neg hroot]
    exact fin _ ⟨rfl, rfl⟩
  · simp only [h0, if_false]
    exact fin _ ⟨rfl, rfl⟩

end Binson

namespace Binson

/-- the level of the enclosing container once a nested object has been opened in value position -/
def objOuterLevel (l : Level) : Level :=
  { l with ctype := .object, flags := if l.flags = .expValue then .expField else l.flags }

def freshObjLevel : Level := { Level.zero with flags := .expField }

/-- `{` in value position below the originating level: consumed, a fresh state entry is in use -/
theorem iter_objBegin {st : LoopSt} {sn : Option (List UInt8)} {oa od : Nat} (hD : Deep st oa od)
    (hcl : classify st.p st.bc = ⟨.objBegin, ⟨st.p.used, 1⟩, st.bc,
      st.p.setLvl st.p.lvlIdx { st.p.getLvl st.p.lvlIdx with ctype := .object }⟩)
    (hlt : st.p.used < st.p.size) (hctx : ValCtx (st.p.getLvl st.p.lvlIdx)) (hdm : st.p.depth < st.p.maxDepth) :
    ∃ st', iter st sn oa od = (st', .cont) ∧ Shape st'.p ∧ st'.p.err = .none ∧ st'.scan = st.scan ∧
      st'.p.used = st.p.used + 1 ∧ st'.p.depth = st.p.depth + 1 ∧ st.p.Frame st'.p ∧
      (∀ i, st'.p.getLvl i = if i = st.p.depth then freshObjLevel
        else if i = st.p.lvlIdx then objOuterLevel (st.p.getLvl st.p.lvlIdx) else st.p.getLvl i) ∧
      st'.ev = (.objBegin, freshObjLevel) :: st.ev := by
  have hsh := hD.shape
  have hli := hsh.lvlIdx_lt
  have hd1 := hD.d1
  have hidx : st.p.lvlIdx = st.p.depth - 1 := Parser.lvlIdx_of_pos hd1
  have hspl := hsh.hsp hD.err st.p.lvlIdx
  obtain ⟨s1, s2, _, s4, s5, s6, s7, s8, s9, s10, s11⟩ :=
    setLvl_ok (p0 := st.p) hsh (Parser.Frame.refl _) { st.p.getLvl st.p.lvlIdx with ctype := .object } hli (SpansOk_of_fields rfl rfl hspl)
  have hgq : ∀ i, (st.p.setLvl st.p.lvlIdx { st.p.getLvl st.p.lvlIdx with ctype := .object }).getLvl i =
      if i = st.p.lvlIdx then { st.p.getLvl st.p.lvlIdx with ctype := .object } else st.p.getLvl i :=
    fun i => getLvl_setLvl _ hli i
  generalize hqdef : st.p.setLvl st.p.lvlIdx { st.p.getLvl st.p.lvlIdx with ctype := .object } = q at hcl s1 s2 s4 s5 s6 s7 s8 s9 s10 s11 hgq
  have hqi : q.lvlIdx = st.p.lvlIdx := by unfold Parser.lvlIdx; rw [s5]
  have hqg : q.getLvl q.lvlIdx = { st.p.getLvl st.p.lvlIdx with ctype := .object } := by rw [hqi, hgq]; simp
  have hli' : st.p.lvlIdx < q.levels.size := by rw [s9]; exact hli
  obtain ⟨lv', hob, hab, h1, h2, h3, h4, _, h6, h7⟩ :=
    blocks_value hD (lv := { st.p.getLvl st.p.lvlIdx with ctype := .object }) (tok := .objBegin) q s5 ⟨rfl, rfl⟩ hctx rfl true
  have hlv' : lv' = objOuterLevel (st.p.getLvl st.p.lvlIdx) := by
    unfold objOuterLevel
    by_cases hf : (st.p.getLvl st.p.lvlIdx).flags = .expValue
    · exact Level.eq_of_fields h4 h3 h2 (by rw [h6 hf]; simp [hf]) h1
    · exact Level.eq_of_fields h4 h3 h2 (by rw [h7 hf]; simp [hf]) h1
  unfold iter
  simp only [hcl, show Tok.objBegin ≠ Tok.error by decide, if_false]
  rw [hqg, hob]
  simp only [hab, hqi]
  show ∃ st', caseObjBegin _ _ _ _ _ = (st', .cont) ∧ _
  unfold caseObjBegin
  rw [if_pos hD.cont.has_objBegin, hD.cont.clear_enterObj]
  -- the outer level written back
  have hspo : lv'.SpansOk q.size := by rw [s8]; exact SpansOk_of_fields h2 h3 hspl
  obtain ⟨t1, t2, _, t4, t5, t6, t7, t8, t9, t10, t11⟩ := setLvl_ok (p0 := st.p) s1 s2 lv' hli' hspo
  have hgw : ∀ i, (q.setLvl st.p.lvlIdx lv').getLvl i = if i = st.p.lvlIdx then lv' else st.p.getLvl i := by
    intro i
    rw [getLvl_setLvl _ hli' i]
    split
    · rfl
    · rename_i hne; rw [hgq]; simp [hne]
  generalize hwdef : q.setLvl st.p.lvlIdx lv' = w at t1 t2 t4 t5 t6 t7 t8 t9 t10 t11 hgw
  dsimp only
  have hcond : w.depth < 255 ∧ w.depth < w.maxDepth := by
    rw [t5, s5, t11, s11]; have := hD.md255; omega
  rw [if_pos hcond]
  -- the new level
  have hdw : w.depth = st.p.depth := by rw [t5, s5]
  have hn1 : Shape { w with used := w.used + 1, depth := w.depth + 1, cur := w.depth + 1 - 1 } := by
    refine t1.update ⟨rfl, rfl, rfl, rfl, rfl⟩ t1.hnf t1.hno (by simp; omega) (by simp [Parser.lvlIdx]) (by simp; rw [t4, s4, t8, s8]; omega) ?_
    intro e i; exact t1.hsp e i
  have hcur : ({ w with used := w.used + 1, depth := w.depth + 1, cur := w.depth + 1 - 1 } : Parser).cur
      < ({ w with used := w.used + 1, depth := w.depth + 1, cur := w.depth + 1 - 1 } : Parser).levels.size := hn1.cur_lt
  rw [touchLvl_of_lt hcur]
  have hne : ({ w with used := w.used + 1, depth := w.depth + 1, cur := w.depth + 1 - 1 } : Parser).err = .none := by
    show w.err = .none; rw [t6, s6]; exact hD.err
  have hcd : w.depth + 1 - 1 = st.p.depth := by rw [hdw]; omega
  have hzero : ({ w with used := w.used + 1, depth := w.depth + 1, cur := w.depth + 1 - 1 } : Parser).getLvl (w.depth + 1 - 1) = Level.zero := by
    show w.getLvl (w.depth + 1 - 1) = Level.zero
    rw [hcd, hgw]
    have : st.p.depth ≠ st.p.lvlIdx := by omega
    simp only [this, if_false]
    exact hD.zeros _ (Nat.le_refl _)
  dsimp only
  rw [hzero]
  rw [finish_cont _ _ ({ w with used := w.used + 1, depth := w.depth + 1, cur := w.depth + 1 - 1 }) _ _ _ _ hcur hne (Or.inr hD.cont)]
  obtain ⟨u1, u2, _, u4, u5, u6, u7, u8, u9, u10, u11⟩ :=
    setLvl_ok (p0 := st.p) hn1 (t2.trans ⟨rfl, rfl, rfl, rfl, rfl⟩) { Level.zero with flags := .expField } hcur
      (SpansOk_of_fields rfl rfl (Level.zero_spansOk _))
  have hgf : ∀ i, (({ w with used := w.used + 1, depth := w.depth + 1, cur := w.depth + 1 - 1 } : Parser).setLvl (w.depth + 1 - 1)
      { Level.zero with flags := .expField }).getLvl i =
      if i = st.p.depth then freshObjLevel else if i = st.p.lvlIdx then objOuterLevel (st.p.getLvl st.p.lvlIdx) else st.p.getLvl i := by
    intro i
    have := getLvl_setLvl (p := ({ w with used := w.used + 1, depth := w.depth + 1, cur := w.depth + 1 - 1 } : Parser))
      { Level.zero with flags := .expField } hcur i
    rw [this, hcd]
    split
    · rfl
    · show w.getLvl i = _
      rw [hgw, hlv']
  refine ⟨_, rfl, u1, ?_, rfl, ?_, ?_, u2, hgf, ?_⟩
  · rw [u6]; exact hne
  · rw [u4]; show w.used + 1 = _; rw [t4, s4]
  · rw [u5]; show w.depth + 1 = _; rw [hdw]
  · simp only
    rw [u7]
    show (Tok.objBegin, _) :: st.ev = _
    rw [hgf]; simp [hcd]

end Binson

namespace Binson

/-- `}` of a nested object below the originating level: consumed, the state entry is wiped and released -/
theorem iter_objEnd {st : LoopSt} {sn : Option (List UInt8)} {oa od : Nat} (hD : Deep st oa od)
    (hcl : classify st.p st.bc = ⟨.objEnd, ⟨st.p.used, 1⟩, st.bc, st.p⟩)
    (hlt : st.p.used < st.p.size) (hf : (st.p.getLvl st.p.lvlIdx).flags = .expField) (hd2 : 2 ≤ st.p.depth)
    (hod : od < st.p.depth) :
    ∃ st', iter st sn oa od = (st', .cont) ∧ Shape st'.p ∧ st'.p.err = .none ∧ st'.scan = st.scan ∧
      st'.p.used = st.p.used + 1 ∧ st'.p.depth = st.p.depth - 1 ∧ st.p.Frame st'.p ∧
      (∀ i, st'.p.getLvl i = if i = st.p.depth - 1 then Level.zero else st.p.getLvl i) ∧
      st'.ev = (.objEnd, st.p.getLvl (st.p.depth - 2)) :: st.ev := by
  have hsh := hD.shape
  have hli := hsh.lvlIdx_lt
  have hidx : st.p.lvlIdx = st.p.depth - 1 := Parser.lvlIdx_of_pos hD.d1
  have hspl := hsh.hsp hD.err st.p.lvlIdx
  have hina : (st.p.getLvl st.p.lvlIdx).flags.inArray = false := by rw [hf]; rfl
  unfold iter
  simp only [hcl, show Tok.objEnd ≠ Tok.error by decide, if_false]
  rw [objBlock_end rfl (by decide)]
  simp only [arrBlock_notArr _ _ _ hina]
  show ∃ st', caseObjEnd _ _ _ _ _ _ = (st', .cont) ∧ _
  unfold caseObjEnd
  rw [if_neg (by simp [hf]), if_pos hD.cont.has_objEnd]
  have hodn : ¬ od = st.p.depth := by omega
  dsimp only
  rw [if_neg hodn, if_neg (by intro h; exact hodn h.1)]
  -- write the level back, consume, wipe
  obtain ⟨s1, s2, _, s4, s5, s6, s7, s8, s9, s10, s11⟩ :=
    setLvl_ok (p0 := st.p) hsh (Parser.Frame.refl _) (st.p.getLvl st.p.lvlIdx) hli hspl
  have hgq : ∀ i, (st.p.setLvl st.p.lvlIdx (st.p.getLvl st.p.lvlIdx)).getLvl i = st.p.getLvl i := by
    intro i; rw [getLvl_setLvl _ hli i]; split
    · rename_i h; rw [h]
    · rfl
  generalize st.p.setLvl st.p.lvlIdx (st.p.getLvl st.p.lvlIdx) = q at s1 s2 s4 s5 s6 s7 s8 s9 s10 s11 hgq
  have hq2 : Shape { q with used := q.used + 1 } := s1.withUsed (q.used + 1) (by rw [s4, s8]; omega)
  have hcur : ({ q with used := q.used + 1 } : Parser).cur < ({ q with used := q.used + 1 } : Parser).levels.size := hq2.cur_lt
  rw [touchLvl_of_lt hcur]
  have hqc : ({ q with used := q.used + 1 } : Parser).cur = st.p.depth - 1 := by
    show q.cur = _; rw [s7, hsh.hcur, hidx]
  obtain ⟨t1, t2, _, t4, t5, t6, t7, t8, t9, t10, t11⟩ :=
    setLvl_ok (p0 := st.p) hq2 (s2.trans ⟨rfl, rfl, rfl, rfl, rfl⟩) Level.zero hcur (Level.zero_spansOk _)
  have hgw : ∀ i, (({ q with used := q.used + 1 } : Parser).setLvl ({ q with used := q.used + 1 } : Parser).cur Level.zero).getLvl i =
      if i = st.p.depth - 1 then Level.zero else st.p.getLvl i := by
    intro i
    have := getLvl_setLvl (p := ({ q with used := q.used + 1 } : Parser)) Level.zero hcur i
    rw [this, hqc]
    split
    · rfl
    · exact hgq i
  generalize ({ q with used := q.used + 1 } : Parser).setLvl ({ q with used := q.used + 1 } : Parser).cur Level.zero = w
    at t1 t2 t4 t5 t6 t7 t8 t9 t10 t11 hgw
  have hwd : w.depth = st.p.depth := by rw [t5]; exact s5
  rw [if_pos (by rw [hwd]; omega : w.depth > 1)]
  have hw : Shape { w with depth := w.depth - 1, cur := w.depth - 1 - 1 } := by
    refine t1.update ⟨rfl, rfl, rfl, rfl, rfl⟩ t1.hnf t1.hno (by have := t1.hdp; simp; omega) ?_ t1.hus ?_
    · simp only [Parser.lvlIdx]; split <;> omega
    · intro e i; exact t1.hsp e i
  have hc2 : w.depth - 1 - 1 < ({ w with depth := w.depth - 1, cur := w.depth - 1 - 1 } : Parser).levels.size := hw.cur_lt
  have hwe : ({ w with depth := w.depth - 1, cur := w.depth - 1 - 1 } : Parser).err = .none := by
    show w.err = .none; rw [t6]; show q.err = .none; rw [s6]; exact hD.err
  try dsimp only
  rw [finish_cont _ _ ({ w with depth := w.depth - 1, cur := w.depth - 1 - 1 }) _ _ _ _ hc2 hwe (Or.inr hD.cont)]
  have hspp := hw.hsp hwe (w.depth - 1 - 1)
  obtain ⟨u1, u2, _, u4, u5, u6, u7, u8, u9, u10, u11⟩ :=
    setLvl_ok (p0 := st.p) hw (t2.trans ⟨rfl, rfl, rfl, rfl, rfl⟩)
      (({ w with depth := w.depth - 1, cur := w.depth - 1 - 1 } : Parser).getLvl (w.depth - 1 - 1)) hc2 hspp
  have hgf : ∀ i, (({ w with depth := w.depth - 1, cur := w.depth - 1 - 1 } : Parser).setLvl (w.depth - 1 - 1)
      (({ w with depth := w.depth - 1, cur := w.depth - 1 - 1 } : Parser).getLvl (w.depth - 1 - 1))).getLvl i =
      if i = st.p.depth - 1 then Level.zero else st.p.getLvl i := by
    intro i
    have := getLvl_setLvl (p := ({ w with depth := w.depth - 1, cur := w.depth - 1 - 1 } : Parser))
      (({ w with depth := w.depth - 1, cur := w.depth - 1 - 1 } : Parser).getLvl (w.depth - 1 - 1)) hc2 i
    rw [this]
    split
    · rename_i h; rw [h]; exact hgw _
    · exact hgw i
  refine ⟨_, rfl, u1, ?_, rfl, ?_, ?_, u2, hgf, ?_⟩
  · rw [u6]; exact hwe
  · rw [u4]; show w.used = _; rw [t4]; show q.used + 1 = _; rw [s4]
  · rw [u5]; show w.depth - 1 = _; rw [hwd]
  · simp only
    rw [u7]
    show (Tok.objEnd, _) :: st.ev = _
    rw [hgf, hwd]
    have : st.p.depth - 1 - 1 ≠ st.p.depth - 1 := by omega
    simp only [this, if_false]
    rfl

end Binson

namespace Binson

/-- the level once a field name has been read -/
def nameLevel (l : Level) (span : Span) : Level := { l with name := some span, flags := .expValue }

/-- the level once an array has been opened in it -/
def arrInnerLevel (l : Level) : Level := { l with ctype := .array, flags := .arr1, ad := l.ad + 1 }

theorem iter_arrBegin' {st : LoopSt} {sn : Option (List UInt8)} {oa od : Nat} (hD : Deep st oa od)
    (hcl : classify st.p st.bc = ⟨.arrBegin, ⟨st.p.used, 1⟩, st.bc,
      st.p.setLvl st.p.lvlIdx { st.p.getLvl st.p.lvlIdx with ctype := .array }⟩)
    (hlt : st.p.used < st.p.size) (hctx : ValCtx (st.p.getLvl st.p.lvlIdx)) (had : (st.p.getLvl st.p.lvlIdx).ad < 255) :
    ∃ st', iter st sn oa od = (st', .cont) ∧ Shape st'.p ∧ st'.p.err = .none ∧ st'.scan = st.scan ∧
      st'.p.used = st.p.used + 1 ∧ st'.p.depth = st.p.depth ∧ st.p.Frame st'.p ∧
      (∀ i, st'.p.getLvl i = if i = st.p.lvlIdx then arrInnerLevel (st.p.getLvl st.p.lvlIdx) else st.p.getLvl i) ∧
      st'.ev = (.arrBegin, arrInnerLevel (st.p.getLvl st.p.lvlIdx)) :: st.ev :=
  iter_arrBegin hD hcl hlt hctx had

/-- a field name below the originating level, relational form -/
theorem iter_fieldName' {st : LoopSt} {sn : Option (List UInt8)} {oa od : Nat} (hD : Deep st oa od)
    (span : Span) (bc : Nat) (q : Parser) (hq : q = { st.p with used := st.p.used + bc })
    (hcl : classify st.p st.bc = ⟨.string, span, bc, q⟩)
    (hfit : st.p.used + bc ≤ st.p.size) (hsp : span.off + span.len ≤ st.p.size)
    (hf : (st.p.getLvl st.p.lvlIdx).flags = .expField)
    (hord : ∀ pn, (st.p.getLvl st.p.lvlIdx).name = some pn → cmpBytes (st.p.slice pn) (st.p.slice span) < 0) :
    ∃ st', iter st sn oa od = (st', .cont) ∧ Shape st'.p ∧ st'.p.err = .none ∧ st'.scan = st.scan ∧
      st'.p.used = st.p.used + bc ∧ st'.p.depth = st.p.depth ∧ st.p.Frame st'.p ∧
      (∀ i, st'.p.getLvl i = if i = st.p.lvlIdx then nameLevel (st.p.getLvl st.p.lvlIdx) span else st.p.getLvl i) ∧
      st'.ev = (.fieldName, nameLevel (st.p.getLvl st.p.lvlIdx) span) :: st.ev := by
  have hit := iter_fieldName (sn := sn) hD span bc q hq hcl hfit hsp hf hord
  have hsh := hD.shape
  have hli := hsh.lvlIdx_lt
  have hspl := hsh.hsp hD.err st.p.lvlIdx
  have hqs : Shape q := by rw [hq]; exact hsh.withUsed _ hfit
  have hli' : st.p.lvlIdx < q.levels.size := by rw [hq]; exact hli
  have hnl : (nameLevel (st.p.getLvl st.p.lvlIdx) span).SpansOk q.size := by
    rw [show q.size = st.p.size by rw [hq]]
    exact ⟨fun s hs => by simp [nameLevel] at hs; subst hs; exact hsp, fun s hs => hspl.2 s hs⟩
  obtain ⟨t1, t2, _, t4, t5, t6, t7, t8, t9, t10, t11⟩ :=
    setLvl_ok (p0 := st.p) hqs (by rw [hq]; exact ⟨rfl, rfl, rfl, rfl, rfl⟩) (nameLevel (st.p.getLvl st.p.lvlIdx) span) hli' hnl
  have hg : ∀ i, (q.setLvl st.p.lvlIdx (nameLevel (st.p.getLvl st.p.lvlIdx) span)).getLvl i =
      if i = st.p.lvlIdx then nameLevel (st.p.getLvl st.p.lvlIdx) span else st.p.getLvl i := by
    intro i; rw [getLvl_setLvl _ hli' i]; split
    · rfl
    · rw [hq]; rfl
  refine ⟨_, hit, t1, ?_, rfl, ?_, ?_, t2, hg, rfl⟩
  · exact t6.trans (by rw [hq]; exact hD.err)
  · exact t4.trans (by rw [hq])
  · exact t5.trans (by rw [hq])

end Binson
