/-
  Traversal on ARBITRARY bytes, part 2: `binson_parser_leave_object` - whenever it returns true
  from depth d >= 1 (object-rooted parser), no error is pending, the depth is d - 1 and at
  least one byte has been consumed.
-/
import Binson.Lemmas.WalkRaw
namespace Binson

def walkLoC (od : Nat) (q : Parser) (s : Option Scan) : Prop := s = some .leaveObj ∧ od ≤ q.depth
def walkLoS (od : Nat) (q : Parser) : Prop := q.err = .none ∧ q.depth + 1 = od ∧ 1 ≤ q.used
def walkLoR (od : Nat) (q : Parser) : Prop := q.err ≠ .none ∨ (q.depth + 1 = od ∧ 1 ≤ q.used)

theorem walk_lo_dispatch (st : LoopSt) (q : Parser) (lv : Level) (li : Nat) (tok : Tok) (span : Span) (bc oa od : Nat)
    (he : q.err = .none) (hpt : q.ptype = 1) (hod : 1 ≤ od) (hd : od ≤ q.depth) :
    WalkPost (walkDispatch st q lv li (some .leaveObj) tok span bc none oa od) (walkLoC od) (walkLoS od) (walkLoR od) := by
  have hasT : ∀ l : List Scan, l.contains Scan.leaveObj = true → has (some Scan.leaveObj) l = true := fun l h => h
  have contErr : ∀ (p : Parser) (lv : Level) (li : Nat) (tok : Tok) (s : Option Scan) (f : Bool), p.err ≠ .none →
      WalkPost (finish st tok p lv li s f) (walkLoC od) (walkLoS od) (walkLoR od) := by
    intro p lv li tok s f hp
    exact walk_post_finish _ _ _ _ _ _ _ (fun _ => Or.inl (by rw [setLvl_err]; exact hp)) (fun h => absurd h hp) (fun h => absurd h hp)
  have contOk : ∀ (p : Parser) (lv : Level) (li : Nat) (tok : Tok) (f : Bool), od ≤ p.depth →
      WalkPost (finish st tok p lv li (some .leaveObj) f) (walkLoC od) (walkLoS od) (walkLoR od) := by
    intro p lv li tok f hp
    refine walk_post_finish _ _ _ _ _ _ _ (fun h => Or.inl (by rw [setLvl_err]; exact h))
      (fun _ _ => ⟨rfl, by rw [setLvl_depth]; exact hp⟩) (fun _ h => ?_)
    unfold walkProceed at h
    rw [show has (some Scan.leaveObj) [.verify, .leaveObj, .value, .leaveArr] = true from rfl] at h
    simp at h
  unfold walkDispatch
  cases tok with
  | objBegin =>
    simp only
    unfold caseObjBegin
    simp only [show has (some Scan.leaveObj) [.verify, .enterObj, .value, .leaveArr, .leaveObj] = true from rfl, if_true,
      show clear (some Scan.leaveObj) .enterObj = some .leaveObj from rfl]
    split
    · refine contOk _ _ _ _ _ ?_
      rw [walk_touchLvl_depth]
      show od ≤ (q.setLvl li lv).depth + 1
      rw [setLvl_depth]; omega
    · exact contErr _ _ _ _ _ _ (by simp)
  | objEnd =>
    simp only
    unfold caseObjEnd
    split
    · exact contErr _ _ _ _ _ _ (by simp)
    · simp only [show has (some Scan.leaveObj) [.verify, .leaveObj, .value, .leaveArr] = true from rfl, if_true]
      have hnv : ∀ s : Option Scan, (s = none ∨ s = some .leaveObj) → has s [.value] = false := by
        intro s hs; rcases hs with rfl | rfl <;> rfl
      have hs2 : (if od = q.depth then clear (some Scan.leaveObj) .leaveObj else some .leaveObj) = none ∨
          (if od = q.depth then clear (some Scan.leaveObj) .leaveObj else some .leaveObj) = some .leaveObj := by
        split
        · left; rfl
        · right; rfl
      rw [if_neg (by rw [hnv _ hs2]; simp)]
      split
      · -- depth > 1
        rename_i hd1
        have hd1' : 1 < q.depth := by
          have : ((({ q.setLvl li lv with used := (q.setLvl li lv).used + 1 } : Parser).touchLvl
            ({ q.setLvl li lv with used := (q.setLvl li lv).used + 1 } : Parser).cur).setLvl
            ({ q.setLvl li lv with used := (q.setLvl li lv).used + 1 } : Parser).cur Level.zero).depth = q.depth := by
            rw [setLvl_depth, walk_touchLvl_depth]; show (q.setLvl li lv).depth = _; rw [setLvl_depth]
          rw [this] at hd1; exact hd1
        by_cases hod' : od = q.depth
        · rw [if_pos hod']
          refine walk_post_finish _ _ _ _ _ _ _ (fun h => Or.inl (by rw [setLvl_err]; exact h)) (fun _ h => ?_) (fun h1 _ => ?_)
          · unfold walkProceed at h
            rw [show clear (some Scan.leaveObj) .leaveObj = none from rfl] at h
            simp [has] at h
          · refine ⟨by rw [setLvl_err]; exact h1, ?_, ?_⟩
            · rw [setLvl_depth]
              show (((({ q.setLvl li lv with used := (q.setLvl li lv).used + 1 } : Parser).touchLvl _).setLvl _ Level.zero).depth - 1) + 1 = od
              rw [setLvl_depth, walk_touchLvl_depth]
              show (q.setLvl li lv).depth - 1 + 1 = od
              rw [setLvl_depth]; omega
            · rw [setLvl_used]
              show 1 ≤ ((({ q.setLvl li lv with used := (q.setLvl li lv).used + 1 } : Parser).touchLvl _).setLvl _ Level.zero).used
              rw [setLvl_used, walk_touchLvl_used]
              show 1 ≤ (q.setLvl li lv).used + 1
              omega
        · rw [if_neg hod']
          refine contOk _ _ _ _ _ ?_
          show od ≤ (((({ q.setLvl li lv with used := (q.setLvl li lv).used + 1 } : Parser).touchLvl _).setLvl _ Level.zero).depth - 1)
          rw [setLvl_depth, walk_touchLvl_depth]
          show od ≤ (q.setLvl li lv).depth - 1
          rw [setLvl_depth]; omega
      · split
        · -- depth = 1: the root object closes
          rename_i _ hd1
          have hd1' : q.depth = 1 := by
            have : ((({ q.setLvl li lv with used := (q.setLvl li lv).used + 1 } : Parser).touchLvl
              ({ q.setLvl li lv with used := (q.setLvl li lv).used + 1 } : Parser).cur).setLvl
              ({ q.setLvl li lv with used := (q.setLvl li lv).used + 1 } : Parser).cur Level.zero).depth = q.depth := by
              rw [setLvl_depth, walk_touchLvl_depth]; show (q.setLvl li lv).depth = _; rw [setLvl_depth]
            rw [this] at hd1; exact hd1
          apply walk_post_ret
          simp only
          split
          · left; simp
          · right
            refine ⟨by show 0 + 1 = od; omega, ?_⟩
            show 1 ≤ ((({ q.setLvl li lv with used := (q.setLvl li lv).used + 1 } : Parser).touchLvl _).setLvl _ Level.zero).used
            rw [setLvl_used, walk_touchLvl_used]
            show 1 ≤ (q.setLvl li lv).used + 1
            omega
        · apply walk_post_ret
          left; simp
  | fieldName =>
    simp only
    unfold caseFieldName
    simp only
    have hdp : (touchName (q.touchBuf span.off span.len) lv.name).depth = q.depth := by
      rw [walk_touchName_depth, walk_touchBuf_depth]
    have hep : (touchName (q.touchBuf span.off span.len) lv.name).err = .none := by
      rw [walk_touchName_err, walk_touchBuf_err]; exact he
    split
    · exact contErr _ _ _ _ _ _ (by simp)
    · split
      · rw [show overshoot (touchName (q.touchBuf span.off span.len) lv.name) span none = false from rfl]
        simp only [Bool.false_eq_true, if_false, show clear (some Scan.leaveObj) .value = some .leaveObj from rfl]
        exact contOk _ _ _ _ _ (by rw [hdp]; exact hd)
      · exact contOk _ _ _ _ _ (by rw [hdp]; exact hd)
  | arrBegin =>
    simp only
    unfold caseArrBegin
    split
    · exact contErr _ _ _ _ _ _ (by simp)
    · simp only [show has (some Scan.leaveObj) [.verify, .value, .enterArr, .leaveArr, .leaveObj] = true from rfl, if_true,
        show clear (some Scan.leaveObj) .enterArr = some .leaveObj from rfl]
      exact contOk _ _ _ _ _ hd
  | arrEnd =>
    simp only
    unfold caseArrEnd
    split
    · exact contErr _ _ _ _ _ _ (by simp)
    · simp only [show has (some Scan.leaveObj) [.verify, .value, .leaveArr, .leaveObj] = true from rfl, if_true,
        show clear (some Scan.leaveObj) .leaveArr = some .leaveObj from rfl, ite_self]
      split
      · exact contErr _ _ _ _ _ _ (by simp)
      · split
        · rw [if_neg (by rw [hpt]; simp)]
          exact contOk _ _ _ _ _ hd
        · exact contOk _ _ _ _ _ hd
  | string | boolean | double | integer | bytes =>
    simp only
    unfold caseScalar
    simp only
    first
      | exact contOk _ _ _ _ _ hd
      | (split
         · exact contErr _ _ _ _ _ _ (by simp)
         · exact contOk _ _ _ _ _ (by rw [walk_touchBuf_depth]; exact hd))
      | exact contOk _ _ _ _ _ (by rw [walk_touchBuf_depth]; exact hd)
  | error =>
    simp only
    unfold caseScalar
    apply walk_post_ret
    left; simp

end Binson

namespace Binson

theorem walk_lo_iter (st : LoopSt) (oa od : Nat) (hs : Shape st.p) (he : st.p.err = .none) (hpt : st.p.ptype = 1)
    (hod : 1 ≤ od) (hJ : walkLoC od st.p st.scan) :
    WalkPost (iter st none oa od) (walkLoC od) (walkLoS od) (walkLoR od) := by
  refine walk_iter_post hs he (fun q hq => Or.inl hq) (fun c lv tok hC _ => ?_)
  rw [hJ.1, walk_arrBlock_scan_ne _ _ _ _ (by decide)]
  exact walk_lo_dispatch _ _ _ _ _ _ _ _ _ hC.err (hC.ptype.trans hpt) hod (by rw [hC.depth]; exact hJ.2)

/-- `_advance_parsing(LEAVE_OBJECT)` from depth >= 1 of an object-rooted parser -/
theorem walk_lo_advance (p : Parser) (hs : Shape p) (he : p.err = .none) (hpt : p.ptype = 1) (hd : 1 ≤ p.depth) :
    walkLoS p.depth (advance p .leaveObj none).p ∨
    ((advance p .leaveObj none).ret = false ∧ walkLoR p.depth (advance p .leaveObj none).p) :=
  walk_mode_adv p hs he .leaveObj none (walkLoC p.depth) (walkLoS p.depth) (walkLoR p.depth) ⟨rfl, Nat.le_refl _⟩
    (fun st i1 i2 i3 i4 => walk_lo_iter st _ _ i1 i2 (i3.trans hpt) hd i4)

/-- **`leave_object` returning true** (shaped object-rooted parser at depth >= 1): no error is
    pending afterwards, the depth went down by exactly one, something has been consumed -/
theorem walk_leaveObject_true (p : Parser) (hs : Shape p) (hpt : p.ptype = 1) (hd : 1 ≤ p.depth)
    (h : (leaveObject p).2 = true) :
    p.err = .none ∧ (leaveObject p).1.err = .none ∧ (leaveObject p).1.depth + 1 = p.depth ∧ 1 ≤ (leaveObject p).1.used := by
  unfold leaveObject at h ⊢
  simp only [touchLvl_of_lt hs.lvlIdx_lt] at h ⊢
  by_cases hf : (!(p.getLvl p.lvlIdx).flags.inObject) = true
  · rw [if_pos hf] at h; cases h
  rw [if_neg hf] at h ⊢
  by_cases he : p.err = .none
  · have hA := walk_lo_advance p hs he hpt hd
    generalize advance p .leaveObj none = r at h hA
    cases hr : r.ret with
    | true =>
      rw [hr] at h hA
      simp only [Bool.not_true, Bool.false_eq_true, if_false] at h ⊢
      rcases hA with ⟨a1, a2, a3⟩ | ⟨hc, _⟩
      · exact ⟨he, a1, a2, a3⟩
      · cases hc
    | false =>
      rw [hr] at h
      simp only [Bool.not_false, if_true] at h ⊢
      have hen : r.p.err = .none := by simpa using h
      rcases hA with ⟨a1, a2, a3⟩ | ⟨_, hR⟩
      · exact ⟨he, a1, a2, a3⟩
      · rcases hR with hR | ⟨a2, a3⟩
        · exact absurd hen hR
        · exact ⟨he, hen, a2, a3⟩
  · rw [advance_err p _ _ he] at h
    simp only [Bool.not_false, if_true] at h
    exact absurd (by simpa using h) he

end Binson
