/-
  C15, serialize half, part 2: the `std::map` model. `mapPut` (= `m_items[key] = v`) keeps the
  field list strictly ascending w.r.t. `bytesLt` and is a map update; hence the tree built by
  any sequence of `put()` calls (`putAll`) is exactly the spec's canonical key-sorted tree
  `sortKeys` (Spec/Canon): distinct names ascending, each with the value of its last insertion.
-/
import Binson.Spec.Canon
import Binson.Model.Cpp
namespace Binson

/-! ### `bytesLt` is a strict total order -/

theorem bytesLt_irrefl : ∀ a : Bytes, bytesLt a a = false
  | [] => rfl
  | x :: xs => by
    unfold bytesLt
    simp [UInt8.lt_irrefl, bytesLt_irrefl xs]

theorem bytesLt_trans : ∀ a b c : Bytes, bytesLt a b = true → bytesLt b c = true → bytesLt a c = true
  | [], [], _, h, _ => by simp [bytesLt] at h
  | [], _ :: _, [], _, h => by simp [bytesLt] at h
  | [], _ :: _, _ :: _, _, _ => by simp [bytesLt]
  | _ :: _, [], _, h, _ => by simp [bytesLt] at h
  | _ :: _, _ :: _, [], _, h => by simp [bytesLt] at h
  | x :: xs, y :: ys, z :: zs, h1, h2 => by
    unfold bytesLt at h1 h2 ⊢
    by_cases hxy : x < y
    · by_cases hyz : y < z
      · have : x < z := by rw [UInt8.lt_iff_toNat_lt] at *; omega
        simp [this]
      · by_cases hzy : z < y
        · simp [hyz, hzy] at h2
        · have e : y = z := UInt8.toNat_inj.mp (by rw [UInt8.lt_iff_toNat_lt] at *; omega)
          subst e
          simp [hxy]
    · by_cases hyx : y < x
      · simp [hxy, hyx] at h1
      · have e : x = y := UInt8.toNat_inj.mp (by rw [UInt8.lt_iff_toNat_lt] at *; omega)
        subst e
        simp only [hxy, if_false] at h1
        by_cases hxz : x < z
        · simp [hxz]
        · by_cases hzx : z < x
          · simp [hxz, hzx] at h2
          · simp only [hxz, hzx, if_false] at h2 ⊢
            exact bytesLt_trans xs ys zs h1 h2

/-- trichotomy: neither smaller means equal (the map's equivalence is equality of names) -/
theorem bytesLt_total : ∀ a b : Bytes, bytesLt a b = false → bytesLt b a = false → a = b
  | [], [], _, _ => rfl
  | [], _ :: _, h, _ => by simp [bytesLt] at h
  | _ :: _, [], _, h => by simp [bytesLt] at h
  | x :: xs, y :: ys, h1, h2 => by
    unfold bytesLt at h1 h2
    by_cases hxy : x < y
    · simp [hxy] at h1
    · by_cases hyx : y < x
      · simp [hyx] at h2
      · have e : x = y := UInt8.toNat_inj.mp (by rw [UInt8.lt_iff_toNat_lt] at *; omega)
        subst e
        simp only [hxy, if_false] at h1 h2
        rw [bytesLt_total xs ys h1 h2]

theorem bytesLt_ne {a b : Bytes} (h : bytesLt a b = true) : a ≠ b := by
  intro e; subst e; rw [bytesLt_irrefl] at h; cases h

/-! ### names, lookup, ascending -/

def Fields.names : Fields → List Bytes
  | .nil => []
  | .cons n _ r => n :: r.names

/-- value of the first field called `k` -/
def Fields.lookup (k : Bytes) : Fields → Option Value
  | .nil => none
  | .cons n v r => if n = k then some v else r.lookup k

/-- the name-order part of `wfFields`: names strictly ascending, the first one after `prev` -/
def ascF : Option Bytes → Fields → Bool
  | _, .nil => true
  | prev, .cons n _ r => nameAfter prev n && ascF (some n) r

theorem ascF_of_wfFields : ∀ (prev : Option Bytes) (fs : Fields), wfFields prev fs = true → ascF prev fs = true
  | _, .nil, _ => rfl
  | prev, .cons n v r, h => by
    have hh : ((nameAfter prev n = true ∧ n.length ≤ INT32_MAX) ∧ wfValue v = true) ∧ wfFields (some n) r = true := by
      simpa [wfFields] using h
    simp [ascF, hh.1.1.1, ascF_of_wfFields (some n) r hh.2]

/-- in an ascending list every name is above the bound -/
theorem ascF_lt : ∀ (n : Bytes) (r : Fields), ascF (some n) r = true → ∀ k ∈ r.names, bytesLt n k = true
  | _, .nil, _, k, hk => by simp [Fields.names] at hk
  | n, .cons m y r, h, k, hk => by
    have hh : bytesLt n m = true ∧ ascF (some m) r = true := by simpa [ascF, nameAfter] using h
    simp only [Fields.names, List.mem_cons] at hk
    rcases hk with rfl | hk
    · exact hh.1
    · exact bytesLt_trans n m k hh.1 (ascF_lt m r hh.2 k hk)

/-! ### `mapPut` -/

theorem nameAfter_some (p n : Bytes) : nameAfter (some p) n = bytesLt p n := rfl

theorem mapPut_cons (n : Bytes) (x : Value) (r : Fields) (k : Bytes) (v : Value) :
    mapPut (.cons n x r) k v =
      if bytesLt k n then .cons k v (.cons n x r)
      else if bytesLt n k then .cons n x (mapPut r k v)
      else .cons n v r := by
  rw [mapPut]

/-- `mapPut` keeps the list strictly ascending (and above any bound the new key is above) -/
theorem ascF_mapPut : ∀ (F : Fields) (prev : Option Bytes) (k : Bytes) (v : Value),
    ascF prev F = true → nameAfter prev k = true → ascF prev (mapPut F k v) = true
  | .nil, prev, k, v, _, hk => by simp [mapPut, ascF, hk]
  | .cons n x r, prev, k, v, h, hk => by
    have hh : nameAfter prev n = true ∧ ascF (some n) r = true := by simpa [ascF] using h
    rw [mapPut_cons]
    by_cases h1 : bytesLt k n = true
    · rw [if_pos h1]
      simp [ascF, hk, nameAfter_some, h1, hh.2]
    · by_cases h2 : bytesLt n k = true
      · rw [if_neg h1, if_pos h2]
        simp only [ascF, hh.1, Bool.true_and]
        exact ascF_mapPut r (some n) k v hh.2 h2
      · rw [if_neg h1, if_neg h2]
        simp [ascF, hh.1, hh.2]

/-- the names after a `put` are the old names with the key inserted (Spec/Canon's `insName`) -/
theorem names_mapPut : ∀ (F : Fields) (k : Bytes) (v : Value), (mapPut F k v).names = insName k F.names
  | .nil, k, v => by simp [mapPut, Fields.names, insName]
  | .cons n x r, k, v => by
    rw [mapPut_cons]
    by_cases h1 : bytesLt k n = true
    · simp [h1, Fields.names, insName]
    · by_cases h2 : bytesLt n k = true
      · simp [h1, h2, Fields.names, insName, names_mapPut r k v]
      · simp [h1, h2, Fields.names, insName]

/-- map update: the key now has the new value, every other key is unchanged -/
theorem lookup_mapPut : ∀ (F : Fields) (k : Bytes) (v : Value) (k' : Bytes),
    (mapPut F k v).lookup k' = if k = k' then some v else F.lookup k'
  | .nil, k, v, k' => by simp [mapPut, Fields.lookup]
  | .cons n x r, k, v, k' => by
    rw [mapPut_cons]
    by_cases h1 : bytesLt k n = true
    · simp [h1, Fields.lookup]
    · by_cases h2 : bytesLt n k = true
      · rw [if_neg h1, if_pos h2]
        simp only [Fields.lookup, lookup_mapPut r k v k']
        by_cases e1 : n = k'
        · by_cases e2 : k = k'
          · exact absurd (e1.trans e2.symm) (bytesLt_ne h2)
          · simp [e1, e2]
        · simp [e1]
      · have e : k = n := bytesLt_total k n (by simpa using h1) (by simpa using h2)
        subst e
        rw [if_neg h1, if_neg h2]
        simp only [Fields.lookup]
        by_cases e1 : k = k' <;> simp [e1]

theorem lookup_mapPut_same (F : Fields) (k : Bytes) (v : Value) : (mapPut F k v).lookup k = some v := by
  simp [lookup_mapPut]

theorem lookup_mapPut_other (F : Fields) (k : Bytes) (v : Value) (k' : Bytes) (h : k ≠ k') :
    (mapPut F k v).lookup k' = F.lookup k' := by
  simp [lookup_mapPut, h]

/-! ### an ascending list is determined by its names and its lookup function -/

theorem filterMap_congr' {α β : Type} {f g : α → Option β} : ∀ (l : List α), (∀ x ∈ l, f x = g x) →
    l.filterMap f = l.filterMap g
  | [], _ => rfl
  | a :: l, h => by
    rw [List.filterMap_cons, List.filterMap_cons, h a (by simp),
      filterMap_congr' l (fun x hx => h x (by simp [hx]))]

theorem asc_canonical : ∀ (prev : Option Bytes) (F : Fields), ascF prev F = true →
    F = Fields.ofList (F.names.filterMap fun k => (F.lookup k).map fun v => (k, v))
  | _, .nil, _ => rfl
  | prev, .cons n x r, h => by
    have hh : nameAfter prev n = true ∧ ascF (some n) r = true := by simpa [ascF] using h
    have ih := asc_canonical (some n) r hh.2
    have hc : (r.names.filterMap fun k => ((Fields.cons n x r).lookup k).map fun v => (k, v)) =
        r.names.filterMap fun k => (r.lookup k).map fun v => (k, v) := by
      apply filterMap_congr'
      intro k hk
      have : n ≠ k := bytesLt_ne (ascF_lt n r hh.2 k hk)
      simp [Fields.lookup, this]
    simp only [Fields.names, List.filterMap_cons]
    rw [hc]
    simp only [Fields.lookup, if_true, Option.map_some, Fields.ofList]
    rw [← ih]

/-! ### a sequence of `put`s -/

/-- `put` every pair of the list, in order -/
def putList (acc : Fields) (l : List (Bytes × Value)) : Fields :=
  l.foldl (fun a kv => mapPut a kv.1 kv.2) acc

@[simp] theorem putList_nil (acc : Fields) : putList acc [] = acc := rfl
@[simp] theorem putList_cons (acc : Fields) (kv : Bytes × Value) (l : List (Bytes × Value)) :
    putList acc (kv :: l) = putList (mapPut acc kv.1 kv.2) l := rfl

theorem ascF_putList (l : List (Bytes × Value)) (acc : Fields) (h : ascF none acc = true) :
    ascF none (putList acc l) = true := by
  induction l generalizing acc with
  | nil => exact h
  | cons kv l ih => exact ih _ (ascF_mapPut acc none kv.1 kv.2 h rfl)

theorem names_putList (l : List (Bytes × Value)) (acc : Fields) :
    (putList acc l).names = l.foldl (fun a kv => insName kv.1 a) acc.names := by
  induction l generalizing acc with
  | nil => rfl
  | cons kv l ih => rw [putList_cons, ih, names_mapPut]; rfl

theorem lastValue_cons (k : Bytes) (kv : Bytes × Value) (l : List (Bytes × Value)) :
    lastValue k (kv :: l) = (lastValue k l).or (if kv.1 = k then some kv.2 else none) := by
  unfold lastValue
  rw [List.reverse_cons, List.find?_append]
  cases List.find? (fun kv => decide (kv.1 = k)) l.reverse with
  | some a => simp
  | none =>
    by_cases e : kv.1 = k <;> simp [e]

/-- last insertion wins; keys never inserted keep what the accumulator had -/
theorem lookup_putList (l : List (Bytes × Value)) (acc : Fields) (k : Bytes) :
    (putList acc l).lookup k = (lastValue k l).or (acc.lookup k) := by
  induction l generalizing acc with
  | nil => simp [lastValue]
  | cons kv l ih =>
    rw [putList_cons, ih, lookup_mapPut, lastValue_cons]
    cases lastValue k l with
    | some a => simp
    | none => by_cases e : kv.1 = k <;> simp [e]

/-- any insertion order: the result is the names sorted and deduplicated, each with its last value -/
theorem putList_nil_eq (l : List (Bytes × Value)) :
    putList .nil l =
      Fields.ofList ((sortedNames l).filterMap fun k => (lastValue k l).map fun v => (k, v)) := by
  have hasc := ascF_putList l .nil rfl
  have hc := asc_canonical none _ hasc
  have hn : (putList .nil l).names = sortedNames l := by rw [names_putList]; rfl
  have hl : ∀ k, (putList .nil l).lookup k = lastValue k l := by
    intro k; rw [lookup_putList]; simp [Fields.lookup]
  rw [hn] at hc
  simp only [hl] at hc
  exact hc

/-! ### `putAll` is `sortKeys` -/

mutual
theorem putAll_eq_sortKeys (v : Value) : putAll v = sortKeys v := by
  cases v with
  | bool b => simp [putAll, sortKeys]
  | int i => simp [putAll, sortKeys]
  | dbl d => simp [putAll, sortKeys]
  | str s => simp [putAll, sortKeys]
  | bytes s => simp [putAll, sortKeys]
  | arr xs => simp [putAll, sortKeys, putAllE_eq_sortKeysE xs]
  | obj fs =>
    simp only [putAll, sortKeys, sortKeysF]
    rw [putAllF_eq_putList fs .nil, putList_nil_eq]
theorem putAllF_eq_putList (fs acc : Fields) : putAllF fs acc = putList acc (sortKeysL fs) := by
  cases fs with
  | nil => simp [putAllF, sortKeysL]
  | cons n v r =>
    simp only [putAllF, sortKeysL, putList_cons]
    rw [putAllF_eq_putList r, putAll_eq_sortKeys v]
theorem putAllE_eq_sortKeysE (xs : Elems) : putAllE xs = sortKeysE xs := by
  cases xs with
  | nil => simp [putAllE, sortKeysE]
  | cons v r => simp [putAllE, sortKeysE, putAll_eq_sortKeys v, putAllE_eq_sortKeysE r]
end

/-- the content of a `Binson` object after `put()` calls in any order is the canonical tree -/
theorem putAllF_nil_eq_sortKeysF (fs : Fields) : putAllF fs .nil = sortKeysF fs := by
  have := putAll_eq_sortKeys (.obj fs)
  simpa [putAll, sortKeys] using this

/-- names strictly ascending whatever the insertion order -/
theorem ascF_putAllF (fs acc : Fields) (h : ascF none acc = true) : ascF none (putAllF fs acc) = true := by
  rw [putAllF_eq_putList]; exact ascF_putList _ _ h

theorem ascF_putAllF_nil (fs : Fields) : ascF none (putAllF fs .nil) = true := ascF_putAllF fs .nil rfl

/-- last `put` wins: looking a name up in the result gives the (recursively built) value of its
    last insertion -/
theorem lookup_putAllF_nil (fs : Fields) (k : Bytes) :
    (putAllF fs .nil).lookup k = lastValue k (sortKeysL fs) := by
  rw [putAllF_eq_putList, lookup_putList]; simp [Fields.lookup]

end Binson
