#!/usr/bin/env python3
"""Translator: /repo headers + preprocessed src/binson_parser.c -> lean/Binson/Generated/{Consts,Masks}.lean

Regenerated on every run; Binson/Bridge.lean proves (by `decide`) that the enumerations and the
mask lists of the hand-written model denote exactly what these numbers say.  Exits 3 with a
message on stderr when the source no longer has the shape it expects (= broken tie)."""
import re, subprocess, sys, os

def die(msg):
    sys.stderr.write("gen_consts: " + msg + "\n"); sys.exit(3)

def defines(path, prefix):
    out = {}
    for m in re.finditer(r'^#define\s+(%s\w*)\s+\(?\s*(0x[0-9A-Fa-f]+|\d+)U?\s*\)?\s*$' % prefix, open(path).read(), re.M):
        out[m.group(1)] = int(m.group(2), 0)
    return out

def enum(path, name):
    src = re.sub(r'/\*.*?\*/', '', open(path).read(), flags=re.S)
    m = re.search(r'typedef\s+enum\s+\w+\s*\{([^}]*)\}\s*%s\s*;' % name, src)
    if not m: die("enum %s not found in %s" % (name, path))
    items = [x.strip() for x in m.group(1).split(',') if x.strip()]
    for it in items:
        if '=' in it: die("enum %s has explicit values: %s" % (name, it))
    return items

def func_body(pp, name):
    m = re.search(r'\b%s\s*\([^;{]*\)\s*\{' % re.escape(name), pp)
    if not m: die("function %s not found" % name)
    i = m.end(); depth = 1
    while depth and i < len(pp):
        c = pp[i]
        if c == '{': depth += 1
        elif c == '}': depth -= 1
        i += 1
    return pp[m.end():i]

def entry_flags(b, fn):
    """scan_flags values an entry point passes to _advance_parsing, in call order. A literal argument is evaluated;
    an argument that is a local variable is resolved to the constants assigned to it in the function (in source
    order), and a run of consecutive variable calls is expanded branch by branch (k-th assignment of each variable,
    in call order) - the rewrite `if (obj) {e=EO; l=LO;} else {e=EA; l=LA;} adv(e) && adv(l)` then yields the
    same sequence as the four literal calls it replaces. Anything else stops the translator."""
    calls = re.findall(r'_advance_parsing\(parser,\s*(\([^)]*\)|[A-Za-z_]\w*)\s*,', b)
    out, run = [], []
    def flush():
        if not run: return
        n = len(run[0])
        if n == 0 or any(len(v) != n for v in run): die("cannot resolve variable scan flags in " + fn)
        for k in range(n):
            for v in run: out.append(v[k])
        del run[:]
    for c in calls:
        if c.startswith('('):
            flush(); out.append(evalmask(c))
        else:
            vals = [evalmask(x) for x in re.findall(r'\b%s\s*=\s*(\([^;]*\)|0x[0-9A-Fa-f]+U?|\d+U?)\s*;' % re.escape(c), b)]
            run.append(vals)
    flush()
    return out

def evalmask(expr):
    expr = re.sub(r'(0x[0-9A-Fa-f]+|\d+)U', r'\1', expr).replace('(', ' ').replace(')', ' ')
    expr = ' '.join(expr.split())
    if not re.fullmatch(r'[0-9A-Fa-fx\s|]+', expr): die("unexpected mask expression: " + expr)
    try: return eval(expr) & 0xFFFF
    except Exception: die("unexpected mask expression: " + expr)


# ---- robustness to harmless rewrites of _advance_parsing (renamed locals, local mask constants, reordered case blocks) ----
ROLE_DECLS = [   # (canonical name, regex on the function text that finds the current name by its declaration)
    ('state',          r'binson_state\s*\*\s*(\w+)\s*='),
    ('next_state',     r'\buint16_t\s+(\w+)\s*;'),
    ('bytes_consumed', r'\bsize_t\s+(\w+)\s*=\s*0\s*;'),
    ('proceed',        r'\b_Bool\s+(\w+)\s*=\s*1\s*;'),
    ('consumed',       r'\bbbuf\s+(\w+)\s*;'),
]
def canonical_names(func_text, body):
    """alpha-rename parameters (by position) and the loop's locals (by declared type) to the names the atom patterns use"""
    m = re.match(r'static\s+_Bool\s+_advance_parsing\s*\(\s*binson_parser\s*\*\s*(\w+)\s*,\s*uint8_t\s+(\w+)\s*,\s*bbuf\s*\*\s*(\w+)\s*\)', func_text)
    if not m: die("_advance_parsing: unexpected signature")
    ren = {m.group(1): 'parser', m.group(2): 'scan_flags', m.group(3): 'scan_name'}
    for canon, rx in ROLE_DECLS:
        found = re.findall(rx, body)
        if len(found) == 1: ren[found[0]] = canon        # ambiguous or absent: leave the names as they are
    # apply simultaneously, whole identifiers only (not struct members after . or ->)
    if all(k == v for k, v in ren.items()): return body
    if len(set(ren.values())) != len(ren): die("_advance_parsing: renaming is not injective")
    def sub(mm):
        w = mm.group(2)
        return mm.group(1) + (ren[w] if (w in ren and mm.group(1) == '') else w)
    return re.sub(r'(->|\.)?\b([A-Za-z_]\w*)\b', lambda mm: (mm.group(1) or '') + (ren.get(mm.group(2), mm.group(2)) if not mm.group(1) else mm.group(2)), body)

def subst_local_consts(body):
    """`const <int type> NAME = <mask expression>;` locals are substituted where they are used"""
    for m in list(re.finditer(r'\bconst\s+(?:uint8_t|uint16_t|uint_fast8_t|unsigned|unsigned\s+int|int)\s+(\w+)\s*=\s*([^;{}]+);', body)):
        name, expr = m.group(1), m.group(2)
        if not re.fullmatch(r'[0-9A-Fa-fxU\s|()]+', expr): continue
        body = body[:m.start()] + ' ' * (m.end() - m.start()) + re.sub(r'\b%s\b' % re.escape(name), '(' + expr.strip() + ')', body[m.end():])
    return body


KNOWN_CALLEES = {'_consume', '_process_one', '_cmp_name', '_parse_integer', '_check_boundary', '_advance_parsing',
                 'memset', 'memcmp', 'memmove', 'memcpy', 'strlen', 'sizeof', 'if', 'while', 'switch', 'for', 'return'}
def inline_new_helpers(pp, body, depth=0):
    """a `static` helper of this file that _advance_parsing calls and that is not one of the callees the model knows
    (an "extract function" refactoring) is expanded in place: parameters renamed to the argument names, its own
    `return`s dropped - so that moving a few lines into a helper does not change the skeleton"""
    if depth > 2: return body
    def expand(m):
        name = m.group(1)
        if name in KNOWN_CALLEES or name.startswith('binson_'): return m.group(0)
        d = re.search(r'static\s+[\w\s\*]+?\b%s\s*\(([^;{}]*)\)\s*\{' % re.escape(name), pp)
        if not d: return m.group(0)
        hb = func_body(pp[d.start():], name)
        params = [re.sub(r'.*?(\w+)\s*$', r'\1', x.strip()) for x in d.group(1).split(',') if x.strip() and x.strip() != 'void']
        # arguments of this call (no nested commas expected for such helpers)
        j = m.end(); k = j; dpt = 1
        while k < len(body) and dpt:
            if body[k] == '(': dpt += 1
            elif body[k] == ')': dpt -= 1
            k += 1
        args = [a.strip() for a in body[j:k - 1].split(',')] if body[j:k - 1].strip() else []
        if len(args) != len(params) or not all(re.fullmatch(r'&?\w+', a) for a in args): return m.group(0)
        ren = dict(zip(params, [a.lstrip('&') for a in args]))
        hb = re.sub(r'(->|\.)?\b([A-Za-z_]\w*)\b', lambda mm: (mm.group(1) or '') + (ren.get(mm.group(2), mm.group(2)) if not mm.group(1) else mm.group(2)), hb)
        hb = re.sub(r'\breturn\b[^;]*;', ';', hb)
        expand.spans.append((m.start(), k, inline_new_helpers(pp, hb[:-1] if hb.endswith('}') else hb, depth + 1)))
        return m.group(0)
    expand.spans = []
    for m in re.finditer(r'(?<![\w>.])(_\w+)\s*\(', body): expand(m)
    out = body
    for a, b, text in sorted(expand.spans, reverse=True):
        out = out[:a] + '{' + text + '}' + out[b:]
    return out

def match_brace(text, i):
    depth = 0
    while i < len(text):
        if text[i] == '{': depth += 1
        elif text[i] == '}':
            depth -= 1
            if depth == 0: return i
        i += 1
    die("unbalanced braces in _advance_parsing")

def canonical_case_order(body, found):
    """atoms in source order, except that the case blocks of each `switch` are put in ascending order of their labels -
    only when every block of that switch ends in break/return (so the order of the blocks cannot matter)"""
    switches = []
    for m in re.finditer(r'\bswitch\s*\(', body):
        j = body.index('{', m.end()); k = match_brace(body, j)
        switches.append((j, k))
    out = []; pos = 0
    def emit_range(a, b): out.extend(x for p, x in found if a <= p < b)
    for (j, k) in switches:
        if j < pos: die("nested switch in _advance_parsing")       # not expected; keep it loud
        emit_range(pos, j)
        # labels at depth 1 of this switch block
        labels = []; depth = 0; i = j
        for mm in re.finditer(r'[{}]|\bcase\b[^:;{}]*:|\bdefault\s*:', body[j:k + 1]):
            t = mm.group(0)
            if t == '{': depth += 1
            elif t == '}': depth -= 1
            elif depth == 1: labels.append((j + mm.start(), j + mm.end()))
        if not labels:
            emit_range(j, k + 1); pos = k + 1; continue
        # group consecutive labels that share a block
        groups = []; cur = [labels[0]]
        for prev, nxt in zip(labels, labels[1:]):
            between = body[prev[1]:nxt[0]]
            if between.strip() == '': cur.append(nxt)
            else: groups.append(cur); cur = [nxt]
        groups.append(cur)
        spans = []
        for gi, g in enumerate(groups):
            start = g[0][0]; end = groups[gi + 1][0][0] if gi + 1 < len(groups) else k
            block = body[g[-1][1]:end].strip()
            closed = re.search(r'(break\s*;|return[^;]*;)\s*}*\s*$', block) is not None
            vals = sorted(x[1] for p, x in found if start <= p < g[-1][1] and x[0] == 'case')
            spans.append((start, end, closed, vals))
        emit_range(j, spans[0][0])
        if all(c for _, _, c, _ in spans[:-1]):
            order = sorted(range(len(spans)), key=lambda i: (spans[i][3][0] if spans[i][3] else 1 << 30))
        else:
            order = list(range(len(spans)))
        for i in order:
            a, b, _, vals = spans[i]
            # labels of a group in ascending order, then the atoms of the block
            inside = [(p, x) for p, x in found if a <= p < b]
            lab = sorted([x for p, x in inside if x[0] == 'case' and p < groups[i][-1][1]], key=lambda x: x[1])
            rest = [x for p, x in inside if not (x[0] == 'case' and p < groups[i][-1][1])]
            out.extend(lab + rest)
        pos = k
    emit_range(pos, len(body) + 1)
    return out

def main():
    repo, outdir = sys.argv[1], sys.argv[2]
    inc = os.path.join(repo, 'include'); src = os.path.join(repo, 'src', 'binson_parser.c')
    d = defines(os.path.join(inc, 'binson_defines.h'), 'BINSON_(?:DEF|OBJECT)_')
    s = defines(src, 'BINSON_(?:STATE|ADVANCE|PTYPE)_')
    need = ['BINSON_DEF_OBJECT_BEGIN','BINSON_DEF_OBJECT_END','BINSON_DEF_ARRAY_BEGIN','BINSON_DEF_ARRAY_END','BINSON_DEF_TRUE','BINSON_DEF_FALSE',
            'BINSON_DEF_DOUBLE','BINSON_DEF_INT8','BINSON_DEF_INT16','BINSON_DEF_INT32','BINSON_DEF_INT64','BINSON_DEF_STRINGLEN_INT8',
            'BINSON_DEF_STRINGLEN_INT16','BINSON_DEF_STRINGLEN_INT32','BINSON_DEF_BYTESLEN_INT8','BINSON_DEF_BYTESLEN_INT16','BINSON_DEF_BYTESLEN_INT32',
            'BINSON_OBJECT_MINIMUM_SIZE']
    for n in need:
        if n not in d: die("constant %s not found" % n)
    need_s = ['BINSON_PTYPE_OBJECT','BINSON_PTYPE_ARRAY','BINSON_STATE_UNDEFINED','BINSON_STATE_IN_OBJ_EXPECTING_FIELD','BINSON_STATE_IN_OBJ_EXPECTING_VALUE',
              'BINSON_STATE_IN_OBJECT','BINSON_STATE_IN_ARRAY_1','BINSON_STATE_IN_ARRAY_2','BINSON_STATE_IN_ARRAY','BINSON_STATE_PARSED_STRING',
              'BINSON_STATE_PARSED_BOOLEAN','BINSON_STATE_PARSED_DOUBLE','BINSON_STATE_PARSED_INTEGER','BINSON_STATE_PARSED_BYTES',
              'BINSON_STATE_PARSED_OBJECT_BEGIN','BINSON_STATE_PARSED_OBJECT_END','BINSON_STATE_PARSED_ARRAY_BEGIN','BINSON_STATE_PARSED_ARRAY_END',
              'BINSON_STATE_ERROR','BINSON_STATE_PARSED_FIELD_NAME','BINSON_STATE_VALUE_FLAG','BINSON_ADVANCE_VERIFY','BINSON_ADVANCE_ENTER_OBJECT',
              'BINSON_ADVANCE_LEAVE_OBJECT','BINSON_ADVANCE_ENTER_ARRAY','BINSON_ADVANCE_LEAVE_ARRAY','BINSON_ADVANCE_VALUE']
    for n in need_s:
        if n not in s: die("constant %s not found in binson_parser.c" % n)
    types = enum(os.path.join(inc, 'binson_defines.h'), 'binson_type')
    errs = enum(os.path.join(inc, 'binson_defines.h'), 'binson_err')

    pp = subprocess.run(['gcc', '-E', '-P', '-DBINSON_PARSER_WITH_PRINT', '-I', inc, src], capture_output=True, text=True)
    if pp.returncode != 0: die("preprocessing failed: " + pp.stderr[:300])
    pp = pp.stdout
    # the definition, not the prototype
    defs = [m.start() for m in re.finditer(r'static\s+_Bool\s+_advance_parsing\s*\([^;{]*\)\s*\{', pp)]
    if len(defs) != 1: die("_advance_parsing definition not found exactly once")
    body = func_body(pp[defs[0]:], '_advance_parsing')

    body = inline_new_helpers(pp, body)
    body = canonical_names(pp[defs[0]:], body)
    body = subst_local_consts(body)
    # macro and hand-expanded spellings of the mask tests/clears look the same after this
    body = re.sub(r'(?<!switch)(?<!switch )(?<!while)(?<!while )(?<!if)(?<!if )\(\s*(scan_flags|state->flags|next_state)\s*\)', r'\1', body)
    body = re.sub(r'\(\s*(?:uint8_t|uint16_t|uint_fast8_t|unsigned|unsigned\s+int)\s*\)\s*(?=~)', '', body)
    found = []   # (position, atom)
    pat = re.compile(
        r'(?P<case>case\s*\((?P<casev>0x[0-9A-Fa-f]+)U\)\s*:)'
        r'|(?P<chks>\(\s*scan_flags\s*&\s*(?P<chksv>[0-9A-Fa-fxU\s|()]+?)\)\s*(?:>|!=)\s*0U?\b)'
        r'|(?P<clrs>scan_flags\s*&=\s*\(?\s*~\s*(?P<clrsv>[0-9A-Fa-fxU\s|()]+?)\s*\)*\s*;)'
        r'|(?P<chkf>\(\s*state->flags\s*&\s*(?P<chkfv>[0-9A-Fa-fxU\s|()]+?)\)\s*(?:>|!=)\s*0U?\b)'
        r'|(?P<chkn>\(\s*next_state\s*&\s*(?P<chknv>[0-9A-Fa-fxU\s|()]+?)\)\s*(?:>|!=)\s*0U?\b)'
        r'|(?P<setf>state->flags\s*=\s*\((?P<setfv>0x[0-9A-Fa-f]+)U\)\s*;)'
        r'|(?P<eqf>state->flags\s*==\s*\((?P<eqfv>0x[0-9A-Fa-f]+)U\))'
        r'|(?P<err>parser->error_flags\s*=\s*(?P<errv>BINSON_ERROR_\w+)\s*;)'
        r'|(?P<ns>next_state\s*=\s*\((?P<nsv>0x[0-9A-Fa-f]+)U\)\s*;)'
        r'|(?P<used>parser->buffer_used\s*(?P<usedop>\+=|-=)\s*(?P<usedv>\w+)\s*;)'
        r'|(?P<ad>state->array_depth(?P<adop>\+\+|--)\s*;)'
        r'|(?P<dp>parser->depth(?P<dpop>\+\+|--)\s*;)'
        r'|(?P<ret>return\s+(?P<retv>0|1)\s*;)'
        r'|(?P<proc>proceed\s*=\s*(?P<procv>0|1)\s*;)'
        r'|(?P<cb>parser->cb\(parser,\s*next_state,\s*parser->cb_context\)\s*;)'
        r'|(?P<wipe>memset\(parser->current_state,\s*0x00,\s*sizeof\(binson_state\)\)\s*;)')
    for m in pat.finditer(body):
        if m.group('case'): a = ('case', int(m.group('casev'), 16))
        elif m.group('chks'): a = ('chk_scan', evalmask(m.group('chksv')))
        elif m.group('clrs'): a = ('clr_scan', evalmask(m.group('clrsv')))
        elif m.group('chkf'): a = ('chk_flags', evalmask(m.group('chkfv')))
        elif m.group('chkn'): a = ('chk_next', evalmask(m.group('chknv')))
        elif m.group('setf'): a = ('set_flags', int(m.group('setfv'), 16))
        elif m.group('eqf'): a = ('eq_flags', int(m.group('eqfv'), 16))
        elif m.group('err'):
            if m.group('errv') not in errs: die("unknown error code " + m.group('errv'))
            a = ('err', errs.index(m.group('errv')))
        elif m.group('ns'): a = ('next_state', int(m.group('nsv'), 16))
        elif m.group('used'): a = ('used_' + ('add' if m.group('usedop') == '+=' else 'sub') + '_' + m.group('usedv'), 0)
        elif m.group('ad'): a = ('ad_' + ('inc' if m.group('adop') == '++' else 'dec'), 0)
        elif m.group('dp'): a = ('depth_' + ('inc' if m.group('dpop') == '++' else 'dec'), 0)
        elif m.group('ret'): a = ('return', int(m.group('retv')))
        elif m.group('proc'): a = ('proceed', int(m.group('procv')))
        elif m.group('cb'): a = ('callback', 0)
        else: a = ('wipe_level', 0)
        found.append((m.start(), a))
    atoms = canonical_case_order(body, found)
    if sum(1 for a in atoms if a[0] == 'chk_scan') < 5: die("fewer than 5 scan_flags tests found in _advance_parsing")

    # which flag each public entry point passes to _advance_parsing
    entries = []
    for fn in ['binson_parser_verify', 'binson_parser_next', 'binson_parser_field_with_length', 'binson_parser_go_into_object',
               'binson_parser_leave_object', 'binson_parser_go_into_array', 'binson_parser_leave_array', 'binson_parser_get_raw']:
        b = func_body(pp, fn)
        fl = entry_flags(b, fn)
        if not fl: die("no _advance_parsing call in " + fn)
        entries.append((fn, fl))

    os.makedirs(outdir, exist_ok=True)
    L = ["/- GENERATED by tools/gen_consts.py from /repo - do not edit. -/", "namespace Binson.Gen", ""]
    for k in need: L.append("def %s : Nat := %d" % (k.replace('BINSON_', ''), d[k]))
    for k in need_s: L.append("def %s : Nat := %d" % (k.replace('BINSON_', ''), s[k]))
    L.append("def typeEnum : List String := [%s]" % ", ".join('"%s"' % t.replace('BINSON_TYPE_', '') for t in types))
    L.append("def errEnum : List String := [%s]" % ", ".join('"%s"' % t.replace('BINSON_ERROR_', '') for t in errs))
    L += ["", "end Binson.Gen", ""]
    write_if_changed(os.path.join(outdir, 'Consts.lean'), "\n".join(L))
    M = ["/- GENERATED by tools/gen_consts.py from the preprocessed text of _advance_parsing - do not edit. -/", "namespace Binson.Gen", "",
         "/-- the control skeleton of `_advance_parsing` in source order: case labels, tests and clears of `scan_flags`,",
         "    tests and stores of `state->flags`, error codes, cursor/depth updates, returns, callbacks -/",
         "def advanceAtoms : List (String × Nat) := ["]
    M += ["  (\"%s\", %d)%s" % (a, v, "," if i + 1 < len(atoms) else "") for i, (a, v) in enumerate(atoms)]
    M += ["]", "", "/-- the `scan_flags` value each public entry point passes to `_advance_parsing`, in call order -/",
          "def entryFlags : List (String × List Nat) := ["]
    M += ["  (\"%s\", [%s])%s" % (f, ", ".join(map(str, fl)), "," if i + 1 < len(entries) else "") for i, (f, fl) in enumerate(entries)]
    M += ["]", "", "end Binson.Gen", ""]
    write_if_changed(os.path.join(outdir, 'Masks.lean'), "\n".join(M))

def write_if_changed(path, text):
    if os.path.exists(path) and open(path).read() == text: return
    open(path, 'w').write(text)

if __name__ == '__main__':
    main()
