#!/usr/bin/env python3
"""Translator: /repo headers + preprocessed src/binson_parser.c -> lean/Binson/Generated/{Consts,Masks}.lean

Regenerated on every run; Binson/Bridge.lean proves (by `decide`) that the enumerations and the
mask lists of the hand-written model denote exactly what these numbers say.  Exits 3 with a
message on stderr when the source no longer has the shape it expects (= broken tie)."""
import re, subprocess, sys, os

def die(msg):
    sys.stderr.write("gen_consts: " + msg + "\n"); sys.exit(3)

def defines(path, prefix):
    out = {}
    for m in re.finditer(r'^#define\s+(%s\w*)\s+\(?\s*(0x[0-9A-Fa-f]+|\d+)U?\s*\)?\s*$' % prefix, open(path).read(), re.M):
        out[m.group(1)] = int(m.group(2), 0)
    return out

def enum(path, name):
    src = re.sub(r'/\*.*?\*/', '', open(path).read(), flags=re.S)
    m = re.search(r'typedef\s+enum\s+\w+\s*\{([^}]*)\}\s*%s\s*;' % name, src)
    if not m: die("enum %s not found in %s" % (name, path))
    items = [x.strip() for x in m.group(1).split(',') if x.strip()]
    for it in items:
        if '=' in it: die("enum %s has explicit values: %s" % (name, it))
    return items

def func_body(pp, name):
    m = re.search(r'\b%s\s*\([^;{]*\)\s*\{' % re.escape(name), pp)
    if not m: die("function %s not found" % name)
    i = m.end(); depth = 1
    while depth and i < len(pp):
        c = pp[i]
        if c == '{': depth += 1
        elif c == '}': depth -= 1
        i += 1
    return pp[m.end():i]

def evalmask(expr):
    expr = re.sub(r'(0x[0-9A-Fa-f]+|\d+)U', r'\1', expr).replace('(', ' ').replace(')', ' ')
    if not re.fullmatch(r'[0-9A-Fa-fx\s|]+', expr): die("unexpected mask expression: " + expr)
    return eval(expr) & 0xFFFF

def main():
    repo, outdir = sys.argv[1], sys.argv[2]
    inc = os.path.join(repo, 'include'); src = os.path.join(repo, 'src', 'binson_parser.c')
    d = defines(os.path.join(inc, 'binson_defines.h'), 'BINSON_(?:DEF|OBJECT)_')
    s = defines(src, 'BINSON_(?:STATE|ADVANCE|PTYPE)_')
    need = ['BINSON_DEF_OBJECT_BEGIN','BINSON_DEF_OBJECT_END','BINSON_DEF_ARRAY_BEGIN','BINSON_DEF_ARRAY_END','BINSON_DEF_TRUE','BINSON_DEF_FALSE',
            'BINSON_DEF_DOUBLE','BINSON_DEF_INT8','BINSON_DEF_INT16','BINSON_DEF_INT32','BINSON_DEF_INT64','BINSON_DEF_STRINGLEN_INT8',
            'BINSON_DEF_STRINGLEN_INT16','BINSON_DEF_STRINGLEN_INT32','BINSON_DEF_BYTESLEN_INT8','BINSON_DEF_BYTESLEN_INT16','BINSON_DEF_BYTESLEN_INT32',
            'BINSON_OBJECT_MINIMUM_SIZE']
    for n in need:
        if n not in d: die("constant %s not found" % n)
    need_s = ['BINSON_PTYPE_OBJECT','BINSON_PTYPE_ARRAY','BINSON_STATE_UNDEFINED','BINSON_STATE_IN_OBJ_EXPECTING_FIELD','BINSON_STATE_IN_OBJ_EXPECTING_VALUE',
              'BINSON_STATE_IN_OBJECT','BINSON_STATE_IN_ARRAY_1','BINSON_STATE_IN_ARRAY_2','BINSON_STATE_IN_ARRAY','BINSON_STATE_PARSED_STRING',
              'BINSON_STATE_PARSED_BOOLEAN','BINSON_STATE_PARSED_DOUBLE','BINSON_STATE_PARSED_INTEGER','BINSON_STATE_PARSED_BYTES',
              'BINSON_STATE_PARSED_OBJECT_BEGIN','BINSON_STATE_PARSED_OBJECT_END','BINSON_STATE_PARSED_ARRAY_BEGIN','BINSON_STATE_PARSED_ARRAY_END',
              'BINSON_STATE_ERROR','BINSON_STATE_PARSED_FIELD_NAME','BINSON_STATE_VALUE_FLAG','BINSON_ADVANCE_VERIFY','BINSON_ADVANCE_ENTER_OBJECT',
              'BINSON_ADVANCE_LEAVE_OBJECT','BINSON_ADVANCE_ENTER_ARRAY','BINSON_ADVANCE_LEAVE_ARRAY','BINSON_ADVANCE_VALUE']
    for n in need_s:
        if n not in s: die("constant %s not found in binson_parser.c" % n)
    types = enum(os.path.join(inc, 'binson_defines.h'), 'binson_type')
    errs = enum(os.path.join(inc, 'binson_defines.h'), 'binson_err')

    pp = subprocess.run(['gcc', '-E', '-P', '-DBINSON_PARSER_WITH_PRINT', '-I', inc, src], capture_output=True, text=True)
    if pp.returncode != 0: die("preprocessing failed: " + pp.stderr[:300])
    pp = pp.stdout
    # the definition, not the prototype
    defs = [m.start() for m in re.finditer(r'static\s+_Bool\s+_advance_parsing\s*\([^;{]*\)\s*\{', pp)]
    if len(defs) != 1: die("_advance_parsing definition not found exactly once")
    body = func_body(pp[defs[0]:], '_advance_parsing')

    atoms = []
    pat = re.compile(
        r'(?P<case>case\s*\((?P<casev>0x[0-9A-Fa-f]+)U\)\s*:)'
        r'|(?P<chks>\(\(\(scan_flags\)\s*&\s*\((?P<chksv>[^;{}]*?)\)\)\s*>\s*0\))'
        r'|(?P<clrs>\(\(scan_flags\)\s*&=\s*\(~\((?P<clrsv>[^;{}]*?)\)\)\))'
        r'|(?P<chkf>\(\(\(state->flags\)\s*&\s*\((?P<chkfv>[^;{}]*?)\)\)\s*>\s*0\))'
        r'|(?P<chkn>\(\(\(next_state\)\s*&\s*\((?P<chknv>[^;{}]*?)\)\)\s*>\s*0\))'
        r'|(?P<setf>state->flags\s*=\s*\((?P<setfv>0x[0-9A-Fa-f]+)U\)\s*;)'
        r'|(?P<eqf>state->flags\s*==\s*\((?P<eqfv>0x[0-9A-Fa-f]+)U\))'
        r'|(?P<err>parser->error_flags\s*=\s*(?P<errv>BINSON_ERROR_\w+)\s*;)'
        r'|(?P<ns>next_state\s*=\s*\((?P<nsv>0x[0-9A-Fa-f]+)U\)\s*;)'
        r'|(?P<used>parser->buffer_used\s*(?P<usedop>\+=|-=)\s*(?P<usedv>\w+)\s*;)'
        r'|(?P<ad>state->array_depth(?P<adop>\+\+|--)\s*;)'
        r'|(?P<dp>parser->depth(?P<dpop>\+\+|--)\s*;)'
        r'|(?P<ret>return\s+(?P<retv>0|1)\s*;)'
        r'|(?P<proc>proceed\s*=\s*(?P<procv>0|1)\s*;)'
        r'|(?P<cb>parser->cb\(parser,\s*next_state,\s*parser->cb_context\)\s*;)'
        r'|(?P<wipe>memset\(parser->current_state,\s*0x00,\s*sizeof\(binson_state\)\)\s*;)')
    for m in pat.finditer(body):
        if m.group('case'): atoms.append(('case', int(m.group('casev'), 16)))
        elif m.group('chks'): atoms.append(('chk_scan', evalmask(m.group('chksv'))))
        elif m.group('clrs'): atoms.append(('clr_scan', evalmask(m.group('clrsv'))))
        elif m.group('chkf'): atoms.append(('chk_flags', evalmask(m.group('chkfv'))))
        elif m.group('chkn'): atoms.append(('chk_next', evalmask(m.group('chknv'))))
        elif m.group('setf'): atoms.append(('set_flags', int(m.group('setfv'), 16)))
        elif m.group('eqf'): atoms.append(('eq_flags', int(m.group('eqfv'), 16)))
        elif m.group('err'):
            if m.group('errv') not in errs: die("unknown error code " + m.group('errv'))
            atoms.append(('err', errs.index(m.group('errv'))))
        elif m.group('ns'): atoms.append(('next_state', int(m.group('nsv'), 16)))
        elif m.group('used'): atoms.append(('used_' + ('add' if m.group('usedop') == '+=' else 'sub') + '_' + m.group('usedv'), 0))
        elif m.group('ad'): atoms.append(('ad_' + ('inc' if m.group('adop') == '++' else 'dec'), 0))
        elif m.group('dp'): atoms.append(('depth_' + ('inc' if m.group('dpop') == '++' else 'dec'), 0))
        elif m.group('ret'): atoms.append(('return', int(m.group('retv'))))
        elif m.group('proc'): atoms.append(('proceed', int(m.group('procv'))))
        elif m.group('cb'): atoms.append(('callback', 0))
        elif m.group('wipe'): atoms.append(('wipe_level', 0))
    if sum(1 for a in atoms if a[0] == 'chk_scan') < 5: die("fewer than 5 scan_flags tests found in _advance_parsing")

    # which flag each public entry point passes to _advance_parsing
    entries = []
    for fn in ['binson_parser_verify', 'binson_parser_next', 'binson_parser_field_with_length', 'binson_parser_go_into_object',
               'binson_parser_leave_object', 'binson_parser_go_into_array', 'binson_parser_leave_array', 'binson_parser_get_raw']:
        b = func_body(pp, fn)
        fl = [evalmask(x) for x in re.findall(r'_advance_parsing\(parser,\s*\(([^)]*)\)', b)]
        if not fl: die("no _advance_parsing call in " + fn)
        entries.append((fn, fl))

    os.makedirs(outdir, exist_ok=True)
    L = ["/- GENERATED by tools/gen_consts.py from /repo - do not edit. -/", "namespace Binson.Gen", ""]
    for k in need: L.append("def %s : Nat := %d" % (k.replace('BINSON_', ''), d[k]))
    for k in need_s: L.append("def %s : Nat := %d" % (k.replace('BINSON_', ''), s[k]))
    L.append("def typeEnum : List String := [%s]" % ", ".join('"%s"' % t.replace('BINSON_TYPE_', '') for t in types))
    L.append("def errEnum : List String := [%s]" % ", ".join('"%s"' % t.replace('BINSON_ERROR_', '') for t in errs))
    L += ["", "end Binson.Gen", ""]
    write_if_changed(os.path.join(outdir, 'Consts.lean'), "\n".join(L))
    M = ["/- GENERATED by tools/gen_consts.py from the preprocessed text of _advance_parsing - do not edit. -/", "namespace Binson.Gen", "",
         "/-- the control skeleton of `_advance_parsing` in source order: case labels, tests and clears of `scan_flags`,",
         "    tests and stores of `state->flags`, error codes, cursor/depth updates, returns, callbacks -/",
         "def advanceAtoms : List (String × Nat) := ["]
    M += ["  (\"%s\", %d)%s" % (a, v, "," if i + 1 < len(atoms) else "") for i, (a, v) in enumerate(atoms)]
    M += ["]", "", "/-- the `scan_flags` value each public entry point passes to `_advance_parsing`, in call order -/",
          "def entryFlags : List (String × List Nat) := ["]
    M += ["  (\"%s\", [%s])%s" % (f, ", ".join(map(str, fl)), "," if i + 1 < len(entries) else "") for i, (f, fl) in enumerate(entries)]
    M += ["]", "", "end Binson.Gen", ""]
    write_if_changed(os.path.join(outdir, 'Masks.lean'), "\n".join(M))

def write_if_changed(path, text):
    if os.path.exists(path) and open(path).read() == text: return
    open(path, 'w').write(text)

if __name__ == '__main__':
    main()
