/-
  Traversal programs, part 5 (C10): decode then encode reproduces every valid document byte for
  byte - object- and array-rooted - and the writer's counter is exact whatever the capacity.
-/
import Binson.Lemmas.WalkTr
import Binson.Lemmas.WalkDesTop
import Binson.Lemmas.WriterProps
namespace Binson

theorem walk_enc_arr_bounds (xs : Elems) :
    2 ≤ (encode (.arr xs)).toArray.size ∧ (encode (.arr xs)).toArray.getD 0 0 = 0x42 ∧
    (encode (.arr xs)).toArray.getD ((encode (.arr xs)).toArray.size - 1) 0 = 0x43 := by
  refine ⟨by simp [encode], ?_, ?_⟩
  · simp only [encode]; exact toArray_getD_head _ _ _
  · simp only [encode, List.size_toArray]; exact toArray_getD_last _ _ _ _

/-- the transcription of an object document, after `reset` has produced a fresh parser -/
theorem walk_tr_fresh_obj (W : Parser) (fs : Fields) (md : Nat) (hF : Fresh W (encode (.obj fs)).toArray 1 md) (hmd : md ≤ 255)
    (hwf : wfDoc .object md (.obj fs) = true) (w : Writer) :
    ∃ p', (goIntoObject W).2 = true ∧
      transcribeItems (2 * W.size + 4) (goIntoObject W).1 (w.step .objBegin).1 true = (p', (w.step .objBegin).1.run (opsOfF fs), true) ∧
      (leaveObject p').2 = true := by
  have hm : W.maxDepth = md := hF.maxDepth
  have hA : Agree W (Cursor.start .object (.obj fs)) :=
    Agree.start .object (.obj fs) rfl (by rw [hm]; exact hF) (by rw [hm]; exact hmd) (by rw [hm]; exact hwf)
  obtain ⟨a1, a2, a3⟩ := walk_cur_start_obj fs
  obtain ⟨g1, _, _, g4⟩ := walk_call hA .enterObj a1
  rw [walk_machNav_enterObj] at g1 g4
  simp only at g1 g4
  rw [a3] at g1
  have hsize : W.size = (encode (.obj fs)).length := by rw [← hF.shape.hbs, hF.buf]; simp
  have hfu : tokensF fs + 1 ≤ 2 * W.size + 4 := by
    have := tokensF_le fs
    rw [hsize]; simp only [encode, List.length_cons, List.length_append, List.length_nil]; omega
  obtain ⟨p2, c2, d1, d2, d3⟩ := walk_trFields fs _ (goIntoObject W).1 _ (w.step .objBegin).1 true [] 1 hfu g4 a2
  obtain ⟨b1, _, b3⟩ := walk_cur_leaveObj d3
  obtain ⟨l1, _, _, _⟩ := walk_call d2 .leaveObj b1
  rw [walk_machNav_leaveObj] at l1
  simp only at l1
  rw [b3] at l1
  exact ⟨p2, g1, d1, l1⟩

/-- the transcription of an array document, after `reset` has produced a fresh parser -/
theorem walk_tr_fresh_arr (W : Parser) (xs : Elems) (md : Nat) (hF : Fresh W (encode (.arr xs)).toArray 2 md) (hmd : md ≤ 255)
    (hwf : wfDoc .array md (.arr xs) = true) (w : Writer) :
    ∃ p', (goIntoArray W).2 = true ∧
      transcribeItems (2 * W.size + 4) (goIntoArray W).1 (w.step .arrBegin).1 false = (p', (w.step .arrBegin).1.run (opsOfE xs), true) ∧
      (leaveArray p').2 = true := by
  have hm : W.maxDepth = md := hF.maxDepth
  have hA : Agree W (Cursor.start .array (.arr xs)) :=
    Agree.start .array (.arr xs) rfl (by rw [hm]; exact hF) (by rw [hm]; exact hmd) (by rw [hm]; exact hwf)
  obtain ⟨a1, a2, a3⟩ := walk_cur_start_arr xs
  obtain ⟨g1, _, _, g4⟩ := walk_call hA .enterArr a1
  rw [walk_machNav_enterArr] at g1 g4
  simp only at g1 g4
  rw [a3] at g1
  have hsize : W.size = (encode (.arr xs)).length := by rw [← hF.shape.hbs, hF.buf]; simp
  have hfu : tokensE xs + 1 ≤ 2 * W.size + 4 := by
    have := tokensE_le xs
    rw [hsize]; simp only [encode, List.length_cons, List.length_append, List.length_nil]; omega
  obtain ⟨p2, c2, d1, d2, d3⟩ := walk_trElems xs _ (goIntoArray W).1 _ (w.step .arrBegin).1 false [] 1 hfu g4 a2
  obtain ⟨b1, _, b3⟩ := walk_cur_leaveArr d3
  obtain ⟨l1, _, _, _⟩ := walk_call d2 .leaveArr b1
  rw [walk_machNav_leaveArr] at l1
  simp only at l1
  rw [b3] at l1
  exact ⟨p2, g1, d1, l1⟩

/-- **the writer calls of a transcription are exactly `opsOf v`**, from ANY shaped parser over
    the encoding of a well-formed document (object- or array-rooted), into any writer -/
theorem transcribe_ops (p : Parser) (hs : Shape p) (root : Root) (v : Value) (md : Nat)
    (hbuf : p.buf = (encode v).toArray) (hpt : p.ptype = rootNum root) (hmd : p.maxDepth = md) (hmd255 : md ≤ 255)
    (hwf : wfDoc root md v = true) (w : Writer) :
    ∃ p', transcribe p w = (p', w.run (opsOf v), true) := by
  have hrk : rootKindOk root v = true := by
    unfold wfDoc at hwf; simp only [Bool.and_eq_true] at hwf; exact hwf.1.2
  cases root with
  | object =>
    cases v with
    | obj fs =>
      obtain ⟨h2, hb0, hbl⟩ := walk_enc_obj_bounds fs
      obtain ⟨r1, hF⟩ := reset_to_fresh hs hbuf hpt hmd 0x40 0x41 (Or.inl ⟨rfl, rfl, rfl⟩) h2 hb0 hbl
      obtain ⟨p', e1, e2, e3⟩ := walk_tr_fresh_obj (reset p).1 fs md hF hmd255 hwf w
      have hpt' : (reset p).1.ptype = 1 := hF.ptype
      refine ⟨(leaveObject p').1, ?_⟩
      unfold transcribe
      simp only [r1, hpt', e1, e2, e3, opsOf, walk_run_cons, walk_run_snoc]
      simp
    | _ => simp [rootKindOk] at hrk
  | array =>
    cases v with
    | arr xs =>
      obtain ⟨h2, hb0, hbl⟩ := walk_enc_arr_bounds xs
      obtain ⟨r1, hF⟩ := reset_to_fresh hs hbuf hpt hmd 0x42 0x43 (Or.inr ⟨rfl, rfl, rfl⟩) h2 hb0 hbl
      obtain ⟨p', e1, e2, e3⟩ := walk_tr_fresh_arr (reset p).1 xs md hF hmd255 hwf w
      have hpt' : (reset p).1.ptype = 2 := hF.ptype
      refine ⟨(leaveArray p').1, ?_⟩
      unfold transcribe
      simp only [r1, hpt', e1, e2, e3, opsOf, walk_run_cons, walk_run_snoc]
      simp
    | _ => simp [rootKindOk] at hrk

/-- **C10.** Decode then encode reproduces every valid document byte for byte: for a well-formed
    document `v` (object- or array-rooted) that fits the depth configuration of any allocated parser
    object, transcribing `init(encode v)` into a writer over a large enough buffer succeeds, the
    writer ends error-free with `used = |encode v|`, and the bytes written are `encode v`. -/
theorem transcribe_id (root : Root) (v : Value) (g : Parser) (ha : Alloc g) (md : Nat) (hmd : g.maxDepth = md) (hmd255 : md ≤ 255)
    (hwf : wfDoc root md v = true) (hsz : (encode v).length < 2 ^ 63)
    (m0 : Array UInt8) (cap : Nat) (hm : m0.size = cap) (hlen : (encode v).length ≤ cap) (hcap : cap < 2 ^ 63) :
    ∃ p' w', transcribe (init g (encode v).toArray (rootNum root)).1 (Writer.init m0 cap).1 = (p', w', true) ∧
      w' = (Writer.init m0 cap).1.run (opsOf v) ∧
      w'.err = .none ∧ w'.used = (encode v).length ∧ (w'.mem.extract 0 w'.used).toList = encode v := by
  subst hm
  subst hmd
  obtain ⟨_, hF, _, _⟩ := verify_wellformed g ha hmd255 root v hwf hsz
  obtain ⟨p', ht⟩ := transcribe_ops (init g (encode v).toArray (rootNum root)).1 hF.shape root v g.maxDepth hF.buf hF.ptype
    hF.maxDepth hmd255 hwf (Writer.init m0 m0.size).1
  obtain ⟨w1, w2, w3⟩ := write_value_encode v (walk_wfValue_of_wfDoc hwf) m0 hlen hcap
  refine ⟨p', _, ht, rfl, w1, w2, ?_⟩
  rw [Array.toList_extract, w2]
  simpa using w3

/-- the dry-run / too-small variant: whatever the capacity, the transcription goes through on the
    parser side and the writer's counter is the exact size of the document -/
theorem transcribe_counter (root : Root) (v : Value) (g : Parser) (ha : Alloc g) (md : Nat) (hmd : g.maxDepth = md) (hmd255 : md ≤ 255)
    (hwf : wfDoc root md v = true) (hsz : (encode v).length < 2 ^ 63)
    (m0 : Array UInt8) (cap : Nat) (hm : m0.size = cap) (hcap : cap < 2 ^ 63) :
    ∃ p' w', transcribe (init g (encode v).toArray (rootNum root)).1 (Writer.init m0 cap).1 = (p', w', true) ∧
      w'.used = (encode v).length ∧ w'.fault = false ∧ (w'.err = .range ↔ cap < (encode v).length) ∧
      (w'.err = .none ∨ w'.err = .range) := by
  subst hmd
  obtain ⟨_, hF, _, _⟩ := verify_wellformed g ha hmd255 root v hwf hsz
  obtain ⟨p', ht⟩ := transcribe_ops (init g (encode v).toArray (rootNum root)).1 hF.shape root v g.maxDepth hF.buf hF.ptype
    hF.maxDepth hmd255 hwf (Writer.init m0 cap).1
  have hwv := walk_wfValue_of_wfDoc hwf
  have htot : totalLen (allPieces (opsOf v)) = (encode v).length := by
    rw [totalLen_eq_flatten, pieces_opsOf v hwv]
  obtain ⟨h1, _, h3, h4, h5, _⟩ := writer_run (opsOf v) cap m0 hm (opsOf_valid v hwv) (by omega) hcap
  rw [htot] at h3 h4
  exact ⟨p', _, ht, h3, h1, h4, h5⟩

end Binson
