/-
  Traversal on ARBITRARY bytes, part 5: `binson_parser_leave_array` - whenever it returns true
  (object-rooted parser, array open in the current entry), no error is pending and the depth is
  unchanged: an END-object token at the originating depth is an error while the entry's array
  count has not come back to its original value.
-/
import Binson.Lemmas.WalkRaw
import Binson.Lemmas.WalkModeV
namespace Binson

/-- the originating entry while its arrays are being skipped -/
def walkJL (oa : Nat) (L : Level) : Prop := oa ≤ L.ad ∧ (L.flags = .arr1 ∨ L.flags = .arr2)

def walkLaC (oa od : Nat) (q : Parser) (s : Option Scan) : Prop :=
  s = some .leaveArr ∧ od ≤ q.depth ∧ walkJL oa (q.getLvl (od - 1))
def walkLaS (od : Nat) (q : Parser) : Prop := q.err = .none ∧ q.depth = od
def walkLaR (q : Parser) : Prop := q.err ≠ .none

theorem walk_touchBuf_getLvl (p : Parser) (o n j : Nat) : (p.touchBuf o n).getLvl j = p.getLvl j := by
  unfold Parser.touchBuf; split <;> rfl
theorem walk_touchName_getLvl (p : Parser) (n : Option Span) (j : Nat) : (touchName p n).getLvl j = p.getLvl j := by
  unfold touchName; split
  · exact walk_touchBuf_getLvl _ _ _ _
  · rfl
theorem walk_touchName_lsize (p : Parser) (n : Option Span) : (touchName p n).levels.size = p.levels.size := by
  unfold touchName; split
  · exact walk_touchBuf_lsize _ _ _
  · rfl

theorem walk_la_dispatch (st : LoopSt) (q : Parser) (lv : Level) (li : Nat) (tok : Tok) (span : Span) (bc oa od : Nat)
    (_he : q.err = .none) (hpt : q.ptype = 1) (hod : 1 ≤ od) (hoa : 1 ≤ oa) (hd : od ≤ q.depth)
    (hli : li < q.levels.size) (hcur : q.cur = li) (hidx : li = q.depth - 1)
    (hJ1 : q.depth = od → walkJL oa lv) (hJ2 : od < q.depth → walkJL oa (q.getLvl (od - 1)))
    (hfn : tok = .fieldName → lv.flags = .expField) :
    WalkPost (walkDispatch st q lv li (some .leaveArr) tok span bc none oa od) (walkLaC oa od) (walkLaS od) walkLaR := by
  have errF : ∀ (p : Parser) (lv : Level) (li : Nat) (tok : Tok) (s : Option Scan) (f : Bool), p.err ≠ .none →
      WalkPost (finish st tok p lv li s f) (walkLaC oa od) (walkLaS od) walkLaR := by
    intro p lv li tok s f hp
    exact walk_post_finish _ _ _ _ _ _ _ (fun _ => (by rw [walkLaR, setLvl_err]; exact hp)) (fun h => absurd h hp) (fun h => absurd h hp)
  have contA : ∀ (p : Parser) (lv : Level) (li : Nat) (tok : Tok) (f : Bool), od ≤ p.depth →
      walkJL oa ((p.setLvl li lv).getLvl (od - 1)) →
      WalkPost (finish st tok p lv li (some .leaveArr) f) (walkLaC oa od) (walkLaS od) walkLaR := by
    intro p lv li tok f hp hj
    refine walk_post_finish _ _ _ _ _ _ _ (fun h => (by rw [walkLaR, setLvl_err]; exact h))
      (fun _ _ => ⟨rfl, by rw [setLvl_depth]; exact hp, hj⟩) (fun _ h => ?_)
    unfold walkProceed at h
    rw [show has (some Scan.leaveArr) [.verify, .leaveObj, .value, .leaveArr] = true from rfl] at h
    simp at h
  have jl : ∀ (P : Parser) (LV : Level), (∀ j, P.getLvl j = q.getLvl j) → P.levels.size = q.levels.size →
      (q.depth = od → walkJL oa LV) → walkJL oa ((P.setLvl li LV).getLvl (od - 1)) := by
    intro P LV hg hsz hLV
    by_cases hdo : q.depth = od
    · have : od - 1 = li := by omega
      rw [this, getLvl_setLvl _ (by rw [hsz]; exact hli), if_pos rfl]
      exact hLV hdo
    · have : od - 1 ≠ li := by omega
      rw [walk_getLvl_setLvl_ne _ _ _ _ this, hg]
      exact hJ2 (by omega)
  have notArr : ∀ {L : Level}, walkJL oa L → L.flags ≠ .expField := by
    intro L h hf
    rcases h.2 with h | h <;> rw [hf] at h <;> cases h
  unfold walkDispatch
  cases tok with
  | objBegin =>
    simp only
    unfold caseObjBegin
    simp only [show has (some Scan.leaveArr) [.verify, .enterObj, .value, .leaveArr, .leaveObj] = true from rfl, if_true,
      show clear (some Scan.leaveArr) .enterObj = some .leaveArr from rfl]
    split
    · refine contA _ _ _ _ _ ?_ ?_
      · rw [walk_touchLvl_depth]
        show od ≤ (q.setLvl li lv).depth + 1
        rw [setLvl_depth]; omega
      · have hne : od - 1 ≠ (q.setLvl li lv).depth + 1 - 1 := by rw [setLvl_depth]; omega
        rw [walk_touchLvl_cur]
        show walkJL oa ((Parser.setLvl _ ((q.setLvl li lv).depth + 1 - 1) _).getLvl (od - 1))
        rw [walk_getLvl_setLvl_ne _ _ _ _ hne, walk_touchLvl_getLvl]
        show walkJL oa ((q.setLvl li lv).getLvl (od - 1))
        exact jl q lv (fun _ => rfl) rfl hJ1
    · exact errF _ _ _ _ _ _ (by simp)
  | objEnd =>
    simp only
    unfold caseObjEnd
    split
    · exact errF _ _ _ _ _ _ (by simp)
    · rename_i hfl
      have hfl' : lv.flags = .expField := Classical.not_not.mp hfl
      have hlt : od < q.depth := by
        rcases Nat.lt_or_ge od q.depth with h | h
        · exact h
        · exact absurd hfl' (notArr (hJ1 (by omega)))
      have hne : od - 1 ≠ li := by omega
      simp only [show has (some Scan.leaveArr) [.verify, .leaveObj, .value, .leaveArr] = true from rfl, if_true,
        show clear (some Scan.leaveArr) .leaveObj = some .leaveArr from rfl, ite_self,
        show has (some Scan.leaveArr) [.value] = false from rfl, Bool.false_eq_true, and_false, if_false]
      have hdq : ((({ q.setLvl li lv with used := (q.setLvl li lv).used + 1 } : Parser).touchLvl
          ({ q.setLvl li lv with used := (q.setLvl li lv).used + 1 } : Parser).cur).setLvl
          ({ q.setLvl li lv with used := (q.setLvl li lv).used + 1 } : Parser).cur Level.zero).depth = q.depth := by
        rw [setLvl_depth, walk_touchLvl_depth]; show (q.setLvl li lv).depth = _; rw [setLvl_depth]
      have hgq : ((({ q.setLvl li lv with used := (q.setLvl li lv).used + 1 } : Parser).touchLvl
          ({ q.setLvl li lv with used := (q.setLvl li lv).used + 1 } : Parser).cur).setLvl
          ({ q.setLvl li lv with used := (q.setLvl li lv).used + 1 } : Parser).cur Level.zero).getLvl (od - 1) = q.getLvl (od - 1) := by
        have hc : ({ q.setLvl li lv with used := (q.setLvl li lv).used + 1 } : Parser).cur = li := by
          show (q.setLvl li lv).cur = li; rw [walk_setLvl_cur, hcur]
        rw [hc, walk_getLvl_setLvl_ne _ _ _ _ hne, walk_touchLvl_getLvl]
        show (q.setLvl li lv).getLvl (od - 1) = _
        rw [walk_getLvl_setLvl_ne _ _ _ _ hne]
      split
      · refine contA _ _ _ _ _ ?_ ?_
        · show od ≤ (((({ q.setLvl li lv with used := (q.setLvl li lv).used + 1 } : Parser).touchLvl _).setLvl _ Level.zero).depth - 1)
          rw [hdq]; omega
        · rw [getLvl_setLvl_self]
          show walkJL oa (((({ q.setLvl li lv with used := (q.setLvl li lv).used + 1 } : Parser).touchLvl _).setLvl _ Level.zero).getLvl (od - 1))
          rw [hgq]; exact hJ2 hlt
      · rename_i hd1
        rw [hdq] at hd1
        exfalso; omega
  | fieldName =>
    simp only
    have hfl := hfn rfl
    have hlt : od < q.depth := by
      rcases Nat.lt_or_ge od q.depth with h | h
      · exact h
      · exact absurd hfl (notArr (hJ1 (by omega)))
    have hne : od - 1 ≠ li := by omega
    unfold caseFieldName
    simp only
    have hdp : (touchName (q.touchBuf span.off span.len) lv.name).depth = q.depth := by
      rw [walk_touchName_depth, walk_touchBuf_depth]
    have hj : ∀ LV : Level, walkJL oa (((touchName (q.touchBuf span.off span.len) lv.name).setLvl li LV).getLvl (od - 1)) := by
      intro LV
      rw [walk_getLvl_setLvl_ne _ _ _ _ hne, walk_touchName_getLvl, walk_touchBuf_getLvl]
      exact hJ2 hlt
    split
    · exact errF _ _ _ _ _ _ (by simp)
    · split
      · rw [show overshoot (touchName (q.touchBuf span.off span.len) lv.name) span none = false from rfl]
        simp only [Bool.false_eq_true, if_false, show clear (some Scan.leaveArr) .value = some .leaveArr from rfl]
        exact contA _ _ _ _ _ (by rw [hdp]; exact hd) (hj _)
      · exact contA _ _ _ _ _ (by rw [hdp]; exact hd) (hj _)
  | arrBegin =>
    simp only
    unfold caseArrBegin
    split
    · exact errF _ _ _ _ _ _ (by simp)
    · simp only [show has (some Scan.leaveArr) [.verify, .value, .enterArr, .leaveArr, .leaveObj] = true from rfl, if_true,
        show clear (some Scan.leaveArr) .enterArr = some .leaveArr from rfl]
      refine contA _ _ _ _ _ hd (jl _ _ (fun _ => rfl) rfl (fun hdo => ?_))
      have := hJ1 hdo
      exact ⟨by show oa ≤ lv.ad + 1; have := this.1; omega, Or.inl rfl⟩
  | arrEnd =>
    simp only
    unfold caseArrEnd
    split
    · exact errF _ _ _ _ _ _ (by simp)
    · simp only [show has (some Scan.leaveArr) [.verify, .value, .leaveArr, .leaveObj] = true from rfl, if_true]
      split
      · exact errF _ _ _ _ _ _ (by simp)
      · rename_i had0
        have stopA : ∀ (p : Parser) (LV : Level) (li : Nat) (tok : Tok), p.depth = od →
            WalkPost (finish st tok p LV li none false) (walkLaC oa od) (walkLaS od) walkLaR := by
          intro p LV li tok hp
          refine walk_post_finish _ _ _ _ _ _ _ (fun h => (by rw [walkLaR, setLvl_err]; exact h)) (fun _ h => ?_)
            (fun h _ => ⟨by rw [setLvl_err]; exact h, by rw [setLvl_depth]; exact hp⟩)
          simp [walkProceed, has] at h
        by_cases horig : od = q.depth ∧ oa = lv.ad
        · rw [if_pos horig, show clear (some Scan.leaveArr) .leaveArr = none from rfl]
          split
          · rw [if_neg (by rw [hpt]; simp)]
            exact stopA _ _ _ _ horig.1.symm
          · exact stopA _ _ _ _ horig.1.symm
        · rw [if_neg horig]
          split
          · rename_i hz
            rw [if_neg (by rw [hpt]; simp)]
            refine contA _ _ _ _ _ hd (jl _ _ (fun _ => rfl) rfl (fun hdo => ?_))
            have := hJ1 hdo
            exfalso
            have h1 : oa ≠ lv.ad := fun h => horig ⟨hdo.symm, h⟩
            have h2 := this.1
            have h3 : lv.ad - 1 = 0 := hz
            omega
          · refine contA _ _ _ _ _ hd (jl _ _ (fun _ => rfl) rfl (fun hdo => ?_))
            have := hJ1 hdo
            have h1 : oa ≠ lv.ad := fun h => horig ⟨hdo.symm, h⟩
            exact ⟨by show oa ≤ lv.ad - 1; have := this.1; omega, Or.inl rfl⟩
  | string | boolean | double | integer | bytes =>
    simp only
    unfold caseScalar
    simp only
    first
      | exact contA _ _ _ _ _ hd (jl _ _ (fun _ => rfl) rfl (fun hdo => hJ1 hdo))
      | (split
         · exact errF _ _ _ _ _ _ (by simp)
         · exact contA _ _ _ _ _ (by rw [walk_touchBuf_depth]; exact hd)
             (jl _ _ (fun j => walk_touchBuf_getLvl _ _ _ j) (walk_touchBuf_lsize _ _ _) (fun hdo => hJ1 hdo)))
      | exact contA _ _ _ _ _ (by rw [walk_touchBuf_depth]; exact hd)
             (jl _ _ (fun j => walk_touchBuf_getLvl _ _ _ j) (walk_touchBuf_lsize _ _ _) (fun hdo => hJ1 hdo))
  | error =>
    simp only
    unfold caseScalar
    apply walk_post_ret
    show _ ≠ _; simp

end Binson

namespace Binson

theorem walk_objBlock_fieldName {X lv : Level} {t : Tok} (h : objBlock X t = some (lv, .fieldName)) (ht : t ≠ .fieldName) :
    lv = X ∧ X.flags = .expField := by
  unfold objBlock at h
  by_cases h1 : X.flags.inObject = true
  · rw [if_pos h1] at h
    simp only at h
    by_cases h2 : X.flags = .expField ∧ t = .string
    · rw [if_pos h2] at h
      have : Tok.fieldName.isValue = false := rfl
      rw [this] at h
      simp only [Bool.false_eq_true, if_false, Option.some.injEq, Prod.mk.injEq] at h
      exact ⟨h.1.symm, h2.1⟩
    · rw [if_neg h2] at h
      by_cases h3 : t.isValue = true
      · rw [if_pos h3] at h
        split at h
        · simp only [Option.some.injEq, Prod.mk.injEq] at h
          exact absurd h.2 ht
        · cases h
      · rw [if_neg h3] at h
        simp only [Option.some.injEq, Prod.mk.injEq] at h
        exact absurd h.2 ht
  · rw [if_neg h1] at h
    simp only [Option.some.injEq, Prod.mk.injEq] at h
    exact absurd h.2 ht

theorem walk_la_iter (st : LoopSt) (oa od : Nat) (hs : Shape st.p) (he : st.p.err = .none) (hpt : st.p.ptype = 1)
    (hod : 1 ≤ od) (hoa : 1 ≤ oa) (hJ : walkLaC oa od st.p st.scan) :
    WalkPost (iter st none oa od) (walkLaC oa od) (walkLaS od) walkLaR := by
  refine walk_iter_post hs he (fun q hq => hq) (fun c lv tok hC hob => ?_)
  obtain ⟨j1, j2, j3⟩ := hJ
  have hdp : 1 ≤ st.p.depth := by omega
  have hidx0 : st.p.lvlIdx = st.p.depth - 1 := Parser.lvlIdx_of_pos hdp
  have hidx : c.p.lvlIdx = c.p.depth - 1 := by rw [hC.lvlIdx, hC.depth]; exact hidx0
  rw [j1, walk_arrBlock_scan_ne _ _ _ _ (by decide)]
  refine walk_la_dispatch _ _ _ _ _ _ _ _ _ hC.err (hC.ptype.trans hpt) hod hoa (by rw [hC.depth]; exact j2)
    hC.shape.lvlIdx_lt hC.shape.hcur hidx ?_ ?_ ?_
  · intro hdo
    rw [hC.depth] at hdo
    have hx : st.p.lvlIdx = od - 1 := by rw [hidx0, hdo]
    have hXa : (c.p.getLvl c.p.lvlIdx).ad = (st.p.getLvl (od - 1)).ad := by rw [hC.lvlIdx, hC.lvlAd, hx]
    have hXf : (c.p.getLvl c.p.lvlIdx).flags = (st.p.getLvl (od - 1)).flags := by rw [hC.lvlIdx, hC.lvlFlags, hx]
    have hXarr : (c.p.getLvl c.p.lvlIdx).flags = .arr1 ∨ (c.p.getLvl c.p.lvlIdx).flags = .arr2 := by rw [hXf]; exact j3.2
    have hlv : lv = c.p.getLvl c.p.lvlIdx := by
      have := objBlock_arr (lv := c.p.getLvl c.p.lvlIdx) (tok := c.tok) hXarr
      rw [this] at hob
      simp only [Option.some.injEq, Prod.mk.injEq] at hob
      exact hob.1.symm
    have hsim := arrBlock_sim lv tok (decide (oa = lv.ad ∧ od = c.p.depth)) (some Scan.leaveArr)
    have hja : walkJL oa lv := by rw [hlv]; exact ⟨by rw [hXa]; exact j3.1, hXarr⟩
    rcases hsim with h | ⟨_, h | h⟩ <;> rw [h]
    · exact hja
    · exact ⟨hja.1, Or.inl rfl⟩
    · exact ⟨hja.1, Or.inr rfl⟩
  · intro hlt
    rw [hC.depth] at hlt
    rw [hC.lvlNe _ (by rw [hidx0]; omega)]
    exact j3
  · intro ht
    rw [ht] at hob
    obtain ⟨e1, e2⟩ := walk_objBlock_fieldName hob hC.tokOk.2
    have hna : lv.flags.inArray = false := by rw [e1, e2]; rfl
    rw [arrBlock_notArr _ _ _ hna, e1]
    exact e2

/-- **`leave_array` returning true** (shaped object-rooted parser, depth >= 1, an array open in
    the current entry): no error is pending afterwards and the depth is unchanged -/
theorem walk_leaveArray_true (p : Parser) (hs : Shape p) (hpt : p.ptype = 1) (hd : 1 ≤ p.depth)
    (had : (p.getLvl p.lvlIdx).flags.inArray = true → 1 ≤ (p.getLvl p.lvlIdx).ad ∧ NoJunk (p.getLvl p.lvlIdx).flags)
    (h : (leaveArray p).2 = true) :
    p.err = .none ∧ (leaveArray p).1.err = .none ∧ (leaveArray p).1.depth = p.depth := by
  unfold leaveArray at h ⊢
  simp only [touchLvl_of_lt hs.lvlIdx_lt] at h ⊢
  by_cases hf : (!(p.getLvl p.lvlIdx).flags.inArray) = true
  · rw [if_pos hf] at h; cases h
  rw [if_neg hf] at h ⊢
  have hin : (p.getLvl p.lvlIdx).flags.inArray = true := by simpa using hf
  obtain ⟨had1, hnj⟩ := had hin
  by_cases he : p.err = .none
  · have hidx : p.lvlIdx = p.depth - 1 := Parser.lvlIdx_of_pos hd
    have hJ0 : walkLaC (p.getLvl p.cur).ad p.depth p (some .leaveArr) := by
      refine ⟨rfl, Nat.le_refl _, ?_⟩
      rw [hs.hcur, ← hidx]
      refine ⟨Nat.le_refl _, ?_⟩
      rcases inArray_cases hin with h | h | ⟨o, h⟩
      · exact Or.inl h
      · exact Or.inr h
      · exact absurd h (hnj o true)
    have hA := walk_mode_adv p hs he .leaveArr none (walkLaC (p.getLvl p.cur).ad p.depth) (walkLaS p.depth) walkLaR hJ0
      (fun st i1 i2 i3 i4 => walk_la_iter st _ _ i1 i2 (i3.trans hpt) hd (by rw [hs.hcur]; exact had1) i4)
    generalize advance p .leaveArr none = r at h hA
    cases hr : r.ret with
    | true =>
      rw [hr] at hA
      simp only [Bool.not_true, Bool.false_eq_true, if_false]
      rcases hA with ⟨a1, a2⟩ | ⟨hc, _⟩
      · exact ⟨he, a1, a2⟩
      · cases hc
    | false =>
      rw [hr] at h
      simp only [Bool.not_false, if_true] at h ⊢
      have hen : r.p.err = .none := by simpa using h
      rcases hA with ⟨a1, a2⟩ | ⟨_, hR⟩
      · exact ⟨he, a1, a2⟩
      · exact absurd hen hR
  · rw [advance_err p _ _ he] at h
    simp only [Bool.not_false, if_true] at h
    exact absurd (by simpa using h) he

end Binson
