/-
  Bridge: obligations linking the constants, mask lists and control skeleton REGENERATED from
  /repo (Binson/Generated/*) to the enumerations and literal lists of the hand-written model.
  Everything here is `decide` over generated numbers; when /repo changes one of them this file
  stops compiling, which the check reports as a broken tie.
-/
import Binson.Generated.Consts
import Binson.Generated.Masks
import Binson.Model.Parser
namespace Binson

/-- the C word an enumerated `Flags` value stands for -/
def Flags.word : Flags → Nat
  | .undef => Gen.STATE_UNDEFINED
  | .expField => Gen.STATE_IN_OBJ_EXPECTING_FIELD
  | .expValue => Gen.STATE_IN_OBJ_EXPECTING_VALUE
  | .arr1 => Gen.STATE_IN_ARRAY_1
  | .arr2 => Gen.STATE_IN_ARRAY_2
  | .junk _ _ => 0

def properFlags : List Flags := [.undef, .expField, .expValue, .arr1, .arr2]

def Scan.bit : Scan → Nat
  | .verify => Gen.ADVANCE_VERIFY | .enterObj => Gen.ADVANCE_ENTER_OBJECT | .leaveObj => Gen.ADVANCE_LEAVE_OBJECT
  | .enterArr => Gen.ADVANCE_ENTER_ARRAY | .leaveArr => Gen.ADVANCE_LEAVE_ARRAY | .value => Gen.ADVANCE_VALUE

def allScans : List Scan := [.verify, .enterObj, .leaveObj, .enterArr, .leaveArr, .value]

def Tok.word : Tok → Nat
  | .string => Gen.STATE_PARSED_STRING | .boolean => Gen.STATE_PARSED_BOOLEAN | .double => Gen.STATE_PARSED_DOUBLE
  | .integer => Gen.STATE_PARSED_INTEGER | .bytes => Gen.STATE_PARSED_BYTES | .objBegin => Gen.STATE_PARSED_OBJECT_BEGIN
  | .objEnd => Gen.STATE_PARSED_OBJECT_END | .arrBegin => Gen.STATE_PARSED_ARRAY_BEGIN | .arrEnd => Gen.STATE_PARSED_ARRAY_END
  | .error => Gen.STATE_ERROR | .fieldName => Gen.STATE_PARSED_FIELD_NAME

def allToks : List Tok := [.string, .boolean, .double, .integer, .bytes, .objBegin, .objEnd, .arrBegin, .arrEnd, .error, .fieldName]

/-- `CHECKBITMASK(x, y)` -/
def chk (x y : Nat) : Bool := (x &&& y) > 0

/-- the scan bits a generated mask selects -/
def maskScans (m : Nat) : List Scan := allScans.filter fun s => chk s.bit m

/-! ### flags words -/
theorem flags_distinct : (properFlags.map Flags.word).Nodup := by decide
theorem flags_inObject : ∀ f ∈ properFlags, chk f.word Gen.STATE_IN_OBJECT = f.inObject := by decide
theorem flags_inArray : ∀ f ∈ properFlags, chk f.word Gen.STATE_IN_ARRAY = f.inArray := by decide
theorem flags_expField : ∀ f ∈ properFlags, chk f.word Gen.STATE_IN_OBJ_EXPECTING_FIELD = decide (f = .expField) := by decide
theorem flags_expValue : ∀ f ∈ properFlags, chk f.word Gen.STATE_IN_OBJ_EXPECTING_VALUE = decide (f = .expValue) := by decide
theorem flags_arr1 : ∀ f ∈ properFlags, chk f.word Gen.STATE_IN_ARRAY_1 = decide (f = .arr1) := by decide

/-! ### scan bits are six distinct single bits (so `Option Scan` = a word with at most one bit) -/
theorem scan_bits : allScans.map Scan.bit = [1, 2, 4, 8, 16, 32] := by decide
/-! ### token words -/
theorem tok_distinct : (allToks.map Tok.word).Nodup := by decide
theorem tok_isValue : ∀ t ∈ allToks, chk t.word Gen.STATE_VALUE_FLAG = t.isValue := by decide

/-! ### token bytes -/
theorem token_bytes :
    [Gen.DEF_OBJECT_BEGIN, Gen.DEF_OBJECT_END, Gen.DEF_ARRAY_BEGIN, Gen.DEF_ARRAY_END, Gen.DEF_TRUE, Gen.DEF_FALSE, Gen.DEF_DOUBLE,
     Gen.DEF_INT8, Gen.DEF_INT16, Gen.DEF_INT32, Gen.DEF_INT64, Gen.DEF_STRINGLEN_INT8, Gen.DEF_STRINGLEN_INT16, Gen.DEF_STRINGLEN_INT32,
     Gen.DEF_BYTESLEN_INT8, Gen.DEF_BYTESLEN_INT16, Gen.DEF_BYTESLEN_INT32, Gen.OBJECT_MINIMUM_SIZE, Gen.PTYPE_OBJECT, Gen.PTYPE_ARRAY]
    = [0x40, 0x41, 0x42, 0x43, 0x44, 0x45, 0x46, 0x10, 0x11, 0x12, 0x13, 0x14, 0x15, 0x16, 0x18, 0x19, 0x1a, 2, 1, 2] := by decide

theorem type_enum : Gen.typeEnum = ["NONE", "OBJECT", "OBJECT_END", "ARRAY", "ARRAY_END", "BOOLEAN", "INTEGER", "DOUBLE", "STRING", "BYTES"] := by decide
theorem err_enum : Gen.errEnum = ["NONE", "RANGE", "FORMAT", "EOF", "END_OF_BLOCK", "NULL", "STATE", "WRONG_TYPE", "MAX_DEPTH_OBJECT", "MAX_DEPTH_ARRAY"] := by decide

/-! ### the scan_flags tests of `_advance_parsing`, in source order, denote the model's lists -/
def chkScanSites : List Nat := (Gen.advanceAtoms.filter fun a => a.1 = "chk_scan").map (·.2)

theorem scan_sites :
    chkScanSites.map maskScans =
      [ [.verify, .enterObj, .leaveObj, .leaveArr, .value],      -- OBJECT_BEGIN: consume or stop
        [.verify, .leaveObj, .leaveArr, .value],                 -- OBJECT_END: consume or end of block
        [.value],                                                -- OBJECT_END at the originating level
        [.verify, .leaveObj, .enterArr, .leaveArr, .value],      -- ARRAY_BEGIN
        [.verify, .leaveObj, .leaveArr, .value],                 -- ARRAY_END
        [.verify, .leaveObj, .leaveArr, .value] ] := by decide   -- proceed

/-- which scan bit each entry point passes -/
theorem entry_flags :
    Gen.entryFlags.map (fun e => (e.1, e.2.map maskScans)) =
      [ ("binson_parser_verify", [[.verify]]), ("binson_parser_next", [[.value]]),
        ("binson_parser_field_with_length", [[.value]]), ("binson_parser_go_into_object", [[.enterObj]]),
        ("binson_parser_leave_object", [[.leaveObj]]), ("binson_parser_go_into_array", [[.enterArr]]),
        ("binson_parser_leave_array", [[.leaveArr]]),
        ("binson_parser_get_raw", [[.enterObj], [.leaveObj], [.enterArr], [.leaveArr]]) ] := by decide

/-! ### the control skeleton of `_advance_parsing` the model was transliterated from.
    The extraction (tools/gen_consts.py) is insensitive to renamed locals/parameters, to local constants
    standing for a mask, and to the ORDER of the case blocks of a switch whose blocks all end in
    break/return (they are listed in ascending order of their labels, `default` last).
    Any edit to the sequence of case labels, `scan_flags`/`flags` tests and stores, error codes,
    cursor/depth updates, returns and callbacks shows up here; whether the edit matters is then
    decided by the correspondence run and the violation search. -/
theorem advance_skeleton :
    Gen.advanceAtoms =
      [("return", 0), ("proceed", 1), ("proceed", 0), ("return", 0), ("case", 64),
       ("next_state", 512), ("case", 65), ("next_state", 1024), ("case", 66), ("next_state", 2048),
       ("case", 67), ("next_state", 4096), ("return", 0), ("chk_flags", 3), ("chk_flags", 1),
       ("next_state", 32768), ("chk_next", 3056), ("chk_flags", 2), ("set_flags", 1), ("err", 2),
       ("return", 0), ("chk_flags", 12), ("chk_flags", 4), ("set_flags", 8), ("clr_scan", 32),
       ("set_flags", 4), ("clr_scan", 32), ("case", 16), ("case", 32), ("case", 64),
       ("err", 2), ("case", 128), ("err", 2), ("case", 256), ("case", 512),
       ("chk_scan", 55), ("clr_scan", 2), ("used_add_1", 0), ("depth_inc", 0), ("set_flags", 1),
       ("err", 8), ("eq_flags", 1), ("set_flags", 2), ("case", 1024), ("chk_flags", 1),
       ("err", 2), ("chk_scan", 53), ("clr_scan", 4), ("chk_scan", 32), ("return", 0),
       ("used_add_1", 0), ("wipe_level", 0), ("depth_dec", 0), ("depth_dec", 0), ("err", 2),
       ("callback", 0), ("return", 0), ("err", 2), ("return", 0), ("return", 0),
       ("case", 2048), ("err", 9), ("chk_scan", 61), ("clr_scan", 8), ("used_add_1", 0),
       ("set_flags", 4), ("ad_inc", 0), ("eq_flags", 1), ("set_flags", 2), ("case", 4096),
       ("chk_flags", 12), ("err", 2), ("chk_scan", 53), ("clr_scan", 16), ("err", 2),
       ("ad_dec", 0), ("used_add_1", 0), ("set_flags", 1), ("err", 2), ("callback", 0),
       ("return", 0), ("set_flags", 4), ("return", 0), ("case", 32768), ("err", 2),
       ("used_sub_bytes_consumed", 0), ("set_flags", 1), ("return", 0), ("clr_scan", 32), ("set_flags", 2),
       ("proceed", 1), ("err", 2), ("return", 0), ("return", 0), ("callback", 0),
       ("chk_scan", 53), ("proceed", 1)] := by decide

end Binson
