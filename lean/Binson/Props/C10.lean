/-
  C10 — decode then encode reproduces every valid document byte for byte.
  `transcribe` (Model/Transcribe.lean) is the program the harness runs on the real library: reset,
  traverse with next / get_name / typed getters / go_into / leave and hand each decoded name and value
  to the corresponding writer call. With `verify_iff` every valid document IS `encode v` of a `wfDoc`,
  so these theorems are "for every valid document", object- and array-rooted.
-/
import Binson.Lemmas.Walk
namespace Binson

/-- the transcription of a valid document into a big-enough destination yields exactly the input bytes -/
theorem c10_transcribe_identity (root : Root) (v : Value) (g : Parser) (ha : Alloc g) (md : Nat) (hmd : g.maxDepth = md) (hmd255 : md ≤ 255)
    (hwf : wfDoc root md v = true) (hsz : (encode v).length < 2 ^ 63)
    (m0 : Array UInt8) (cap : Nat) (hm : m0.size = cap) (hlen : (encode v).length ≤ cap) (hcap : cap < 2 ^ 63) :
    ∃ p' w', transcribe (init g (encode v).toArray (rootNum root)).1 (Writer.init m0 cap).1 = (p', w', true) ∧
      w' = (Writer.init m0 cap).1.run (opsOf v) ∧
      w'.err = .none ∧ w'.used = (encode v).length ∧ (w'.mem.extract 0 w'.used).toList = encode v :=
  transcribe_id root v g ha md hmd hmd255 hwf hsz m0 cap hm hlen hcap

/-- from ANY shaped parser object over the document (used before or not) and into ANY writer, the writer
    calls issued are exactly the canonical call sequence `opsOf v` of the decoded tree -/
theorem c10_transcribe_ops (p : Parser) (hs : Shape p) (root : Root) (v : Value) (md : Nat)
    (hbuf : p.buf = (encode v).toArray) (hpt : p.ptype = rootNum root) (hmd : p.maxDepth = md) (hmd255 : md ≤ 255)
    (hwf : wfDoc root md v = true) (w : Writer) :
    ∃ p', transcribe p w = (p', w.run (opsOf v), true) :=
  transcribe_ops p hs root v md hbuf hpt hmd hmd255 hwf w

/-- any capacity (dry run, too small): the traversal succeeds, the counter is the exact size, RANGE iff it did not fit -/
theorem c10_transcribe_counter (root : Root) (v : Value) (g : Parser) (ha : Alloc g) (md : Nat) (hmd : g.maxDepth = md) (hmd255 : md ≤ 255)
    (hwf : wfDoc root md v = true) (hsz : (encode v).length < 2 ^ 63)
    (m0 : Array UInt8) (cap : Nat) (hm : m0.size = cap) (hcap : cap < 2 ^ 63) :
    ∃ p' w', transcribe (init g (encode v).toArray (rootNum root)).1 (Writer.init m0 cap).1 = (p', w', true) ∧
      w'.used = (encode v).length ∧ w'.fault = false ∧ (w'.err = .range ↔ cap < (encode v).length) ∧
      (w'.err = .none ∨ w'.err = .range) :=
  transcribe_counter root v g ha md hmd hmd255 hwf hsz m0 cap hm hcap

/-- for the bytes of any document verify accepts -/
theorem c10_valid_bytes (g : Parser) (ha : Alloc g) (hmd : g.maxDepth ≤ 255) (buf : Array UInt8) (hsz : buf.size < 2 ^ 63) (root : Root)
    (hi : (init g buf (rootNum root)).2 = true) (hv : (verify (init g buf (rootNum root)).1).2.1 = true)
    (m0 : Array UInt8) (hm : buf.size ≤ m0.size) (hcap : m0.size < 2 ^ 63) :
    ∃ p' w', transcribe (init g buf (rootNum root)).1 (Writer.init m0 m0.size).1 = (p', w', true) ∧
      w'.err = .none ∧ w'.used = buf.size ∧ (w'.mem.extract 0 w'.used).toList = buf.toList := by
  obtain ⟨v, hwf, henc⟩ := (verify_iff g ha hmd buf hsz root).mp ⟨hi, hv⟩
  have hb : buf = (encode v).toArray := by rw [henc]
  have hl : (encode v).length = buf.size := by rw [henc]; simp
  obtain ⟨p', w', h1, _, h3, h4, h5⟩ := transcribe_id root v g ha g.maxDepth rfl hmd hwf (by omega) m0 m0.size rfl (by omega) hcap
  refine ⟨p', w', ?_, h3, by omega, by rw [h5, henc]⟩
  rw [hb]; exact h1

/-- non-vacuity: `{"a":-129}` (a two-byte negative integer) -/
example : wfDoc .object 2 (.obj (.cons [0x61] (.int (-129)) .nil)) = true ∧
    encode (.obj (.cons [0x61] (.int (-129)) .nil)) = [0x40, 0x14, 0x01, 0x61, 0x11, 0x7f, 0xff, 0x41] := by decide

end Binson
